"""C13 - byte-range requests.

R13.1  on every path of get_http_range that returns 206:
           0 <= start <= end <= content_length - 1      (zone domain, path-sensitive)
R13.2  on every path that returns 416 the range is unsatisfiable:
           start >= content_length  or  start > end
R13.3  the Content-Range text is built from the very values returned
       (reaching definitions of start/end at the f-string == at the return),
       and the 416 form names only the length.
R13.4  callers: every call is inside `except ValueError` -> 400, the function's
       explicit raises are ValueError, slices use the inclusive convention,
       the mandatory-range handler refuses an absent header with 400.
R13.5  nothing else under dashlive/server reads the Range header.
"""
from __future__ import annotations

import ast
import re

from ..absint import AVal, INF, Zone, ZoneDomain, ZERO, proves_le
from ..core import (AnalysisError, Report, call_name, dotted, enclosing_class,
                    enclosing_function, find_class, find_func, need, norm, ancestors, short)
from ..flow import Disjunctive, Flow, each, each_exit

BASE = 'dashlive/server/requesthandler/base.py'
MEDIA = 'dashlive/server/requesthandler/media_requests.py'


def linear(e: ast.AST) -> dict[str, int] | None:
    """linear normal form {name: coeff, '': const} of + - over names/ints"""
    if isinstance(e, ast.Constant) and isinstance(e.value, int) and not isinstance(e.value, bool):
        return {'': e.value}
    if isinstance(e, ast.Name):
        return {e.id: 1}
    if isinstance(e, ast.Attribute) and dotted(e):
        return {dotted(e): 1}           # a field of a record: r.end
    if isinstance(e, ast.BinOp) and isinstance(e.op, (ast.Add, ast.Sub)):
        a, b = linear(e.left), linear(e.right)
        if a is None or b is None:
            return None
        out = dict(a)
        sign = 1 if isinstance(e.op, ast.Add) else -1
        for k, v in b.items():
            out[k] = out.get(k, 0) + sign * v
        return {k: v for k, v in out.items() if v != 0}
    if isinstance(e, ast.UnaryOp) and isinstance(e.op, ast.USub):
        a = linear(e.operand)
        return None if a is None else {k: -v for k, v in a.items()}
    return None


def _regex_group_pieces(fn: ast.FunctionDef) -> list[str]:
    """[first piece, last piece] from `a, b = m.groups()` where m is the match of a compiled pattern (a class /
    module constant `re.compile('<literal>')`) that has exactly two capture groups, each made of decimal
    digits only (`\\d*` / `\\d+` / `[0-9]*`) with a literal `-` between them: the pieces are what
    `x.split('-')` gives for a well-formed range"""
    import re as _re
    try:
        from re import _parser as _sre            # Python >= 3.11
    except ImportError:                           # pragma: no cover
        import sre_parse as _sre
    mod = fn
    while getattr(mod, '_parent', None) is not None:
        mod = mod._parent
    consts: dict[str, str] = {}
    for n in ast.walk(mod):
        if isinstance(n, (ast.Assign, ast.AnnAssign)) and getattr(n, 'value', None) is not None \
                and isinstance(n.value, ast.Call) and (call_name(n.value) or '') in ('re.compile', 'compile') \
                and n.value.args and isinstance(n.value.args[0], ast.Constant) and isinstance(n.value.args[0].value, str):
            tg = n.targets[0] if isinstance(n, ast.Assign) else n.target
            if isinstance(tg, ast.Name):
                consts[tg.id] = n.value.args[0].value
    for n in ast.walk(fn):
        if not (isinstance(n, ast.Assign) and len(n.targets) == 1 and isinstance(n.targets[0], ast.Tuple)
                and len(n.targets[0].elts) == 2 and all(isinstance(e, ast.Name) for e in n.targets[0].elts)
                and isinstance(n.value, ast.Call) and isinstance(n.value.func, ast.Attribute)
                and n.value.func.attr == 'groups' and not n.value.args and isinstance(n.value.func.value, ast.Name)):
            continue
        mname = n.value.func.value.id
        mdefs = [a.value for a in ast.walk(fn) if isinstance(a, (ast.Assign, ast.AnnAssign)) and getattr(a, 'value', None) is not None
                 and norm(a.targets[0] if isinstance(a, ast.Assign) else a.target) == mname]
        if len(mdefs) != 1 or not (isinstance(mdefs[0], ast.Call) and isinstance(mdefs[0].func, ast.Attribute)
                                   and mdefs[0].func.attr in ('match', 'fullmatch')):
            continue
        pat_ref = mdefs[0].func.value
        pname = pat_ref.attr if isinstance(pat_ref, ast.Attribute) else (pat_ref.id if isinstance(pat_ref, ast.Name) else None)
        pattern = consts.get(pname or '')
        if pattern is None:
            continue
        try:
            parsed = _sre.parse(pattern)
        except Exception:       # noqa: BLE001
            continue
        groups = [it for it in parsed if str(it[0]) == 'SUBPATTERN']

        def digits_only(sub) -> bool:
            items = list(sub[1][3])
            if len(items) != 1 or str(items[0][0]) not in ('MAX_REPEAT', 'MIN_REPEAT'):
                return False
            inner = list(items[0][1][2])
            if len(inner) != 1 or str(inner[0][0]) != 'IN':
                return False
            cls_ = inner[0][1]
            return all((str(c[0]) == 'CATEGORY' and str(c[1]) == 'CATEGORY_DIGIT')
                       or (str(c[0]) == 'RANGE' and c[1] == (ord('0'), ord('9'))) for c in cls_)
        has_dash = any(str(it[0]) == 'LITERAL' and it[1] == ord('-') for it in parsed)
        if len(groups) == 2 and all(digits_only(g_) for g_ in groups) and has_dash:
            return [e.id for e in n.targets[0].elts]
    return []


def _split_pieces(fn: ast.FunctionDef) -> set[str]:
    out: set[str] = set(_regex_group_pieces(fn))
    for n in ast.walk(fn):
        if isinstance(n, ast.Assign) and isinstance(n.value, ast.Call) \
                and isinstance(n.value.func, ast.Attribute) \
                and n.value.func.attr in ('split', 'partition', 'rsplit') \
                and n.value.args and isinstance(n.value.args[0], ast.Constant) \
                and n.value.args[0].value == '-':
            for t in n.targets:
                if isinstance(t, ast.Tuple):
                    out |= {e.id for e in t.elts if isinstance(e, ast.Name)}
    return out


def _piece_order(fn: ast.FunctionDef) -> list[str]:
    """[first-byte-pos piece, last-byte-pos piece] from `a, b = x.split('-')`"""
    rg = _regex_group_pieces(fn)
    if rg:
        return rg
    for n in ast.walk(fn):
        if isinstance(n, ast.Assign) and isinstance(n.value, ast.Call) \
                and isinstance(n.value.func, ast.Attribute) and n.value.func.attr in ('split', 'rsplit') \
                and n.value.args and isinstance(n.value.args[0], ast.Constant) and n.value.args[0].value == '-':
            for t in n.targets:
                if isinstance(t, ast.Tuple) and len(t.elts) == 2 and all(isinstance(e, ast.Name) for e in t.elts):
                    return [e.id for e in t.elts]
    return []


def _cr_fstring(node: ast.AST, templates: dict | None = None):
    """find the Content-Range f-string in a statement: ('range', [names]) / ('star', [name]);
    a field that is a local holding a template itself is spliced in"""
    templates = templates or {}
    for n in ast.walk(node):
        if isinstance(n, ast.JoinedStr) and n.values and isinstance(n.values[0], ast.Constant) \
                and str(n.values[0].value).startswith('bytes '):
            parts = []
            for p in n.values:
                if isinstance(p, ast.FormattedValue) and isinstance(p.value, ast.Name) \
                        and p.value.id in templates:
                    t = templates[p.value.id]
                    parts.extend(t.values if isinstance(t, ast.JoinedStr) else [t])
                else:
                    parts.append(p)
            names = []
            for p in parts:
                if isinstance(p, ast.FormattedValue):
                    names.append(norm(p.value))
            consts = ''.join(str(p.value) for p in parts if isinstance(p, ast.Constant))
            if '*/' in consts:
                return ('star', names)
            return ('range', names)
    return None


def suffix_start(rep: Report, fn: ast.FunctionDef, construct: str, L: str, pieces: set[str]) -> None:
    """a suffix range `bytes=-N` selects the last N bytes, and the whole resource when N >= length:
    start == max(0, length - N).  A relation between three quantities is outside the zone domain, so the value
    returned as `start` on the suffix paths is resolved through the locals of the path (E12 symbolic values) and
    read structurally: `max(0, L - N)` in either order, or 0 / `L - N` under a comparison of N with L."""
    from ..core import lin_atoms
    from ..flow import Disjunctive, Flow, each_exit
    from ..pathcond import PathCond, atoms_of, entails as pc_entails, f_not, f_or, show as pc_show, sym_values
    order = _piece_order(fn)
    if len(order) != 2:
        return
    p_first, p_last = order
    upd, resolve = sym_values(max_len=400)
    found = 0

    def is_n(e: ast.AST) -> bool:
        return isinstance(e, ast.Call) and norm(e.func) == 'int' and e.args and norm(e.args[0]) == p_last

    def form(e: ast.AST):
        """linear form over L and N ('N' stands for int(<last piece>)), or None"""
        class R(ast.NodeTransformer):
            def visit_Call(self, node):
                if is_n(node):
                    return ast.copy_location(ast.Name(id='N__', ctx=ast.Load()), node)
                return self.generic_visit(node)
        import copy
        f_ = lin_atoms(R().visit(copy.deepcopy(e)))
        if f_ is None or any(k not in (L, 'N__', '') and not k.lstrip('-').isdigit() for k in f_):
            return None
        return {k: v for k, v in f_.items() if v}

    def on_ret(kind, st, state):
        nonlocal found
        if kind != 'return' or st is None or not isinstance(st.value, ast.Tuple) or len(st.value.elts) != 4:
            return
        pc = state[0]
        suffix_atoms = [('atom', f"{p_first} == ''"), f_not(('atom', p_first)), ('atom', f"'' == {p_first}"),
                        ('atom', f'not {p_first}'), ('atom', f'len({p_first}) == 0')]
        if not any(pc_entails(pc, a_) is True for a_ in suffix_atoms):
            return
        status = resolve(state, st.value.elts[2])
        if not (isinstance(status, ast.Constant) and status.value == 206):
            return
        found += 1
        e = resolve(state, st.value.elts[0])
        key = f'suffix: start == max(0, {L} - int({p_last}))'
        ok_ = False
        if isinstance(e, ast.Call) and norm(e.func) == 'max' and len(e.args) == 2 and not e.keywords:
            fs = [form(a_) for a_ in e.args]
            ok_ = any(f_ == {} for f_ in fs if f_ is not None) and any(f_ == {L: 1, 'N__': -1} for f_ in fs if f_ is not None)
        else:
            f_ = form(e)
            # what the path knows about length - N: every comparison atom that holds (or whose negation holds) on the
            # path, with its locals written out, read as a bound on D = L - N
            upper = lower = None        # D <= upper, D >= lower
            for t_ in atoms_of(pc):
                try:
                    c_ = ast.parse(t_, mode='eval').body
                except SyntaxError:
                    continue
                if not (isinstance(c_, ast.Compare) and len(c_.ops) == 1):
                    continue
                holds = pc_entails(pc, ('atom', t_)) is True
                fails = pc_entails(pc, f_not(('atom', t_))) is True
                if not (holds or fails):
                    continue
                lf, rf = form(resolve(state, c_.left)), form(resolve(state, c_.comparators[0]))
                if lf is None or rf is None:
                    continue
                d_ = dict(lf)
                for k_, v_ in rf.items():
                    d_[k_] = d_.get(k_, 0) - v_
                d_ = {k_: v_ for k_, v_ in d_.items() if v_}
                const = -sum(v_ * int(k_ or 0) if k_.lstrip('-').isdigit() else 0 for k_, v_ in d_.items()) \
                    if any(k_.lstrip('-').isdigit() for k_ in d_) else 0
                core = {k_: v_ for k_, v_ in d_.items() if k_ in (L, 'N__')}
                if core not in ({L: 1, 'N__': -1}, {L: -1, 'N__': 1}):
                    continue
                sign = 1 if core.get(L) == 1 else -1        # expression is sign * D + (-const)
                k0 = -const
                op = type(c_.ops[0])
                if fails:
                    op = {ast.Lt: ast.GtE, ast.LtE: ast.Gt, ast.Gt: ast.LtE, ast.GtE: ast.Lt, ast.Eq: ast.NotEq,
                          ast.NotEq: ast.Eq}.get(op, None)
                if op is None:
                    continue
                # sign*D + k0 (op) 0, integers
                if op in (ast.LtE, ast.Lt):
                    bound = -k0 - (1 if op is ast.Lt else 0)            # sign*D <= bound
                    if sign == 1:
                        upper = bound if upper is None else min(upper, bound)
                    else:
                        lower = -bound if lower is None else max(lower, -bound)
                elif op in (ast.GtE, ast.Gt):
                    bound = -k0 + (1 if op is ast.Gt else 0)            # sign*D >= bound
                    if sign == 1:
                        lower = bound if lower is None else max(lower, bound)
                    else:
                        upper = -bound if upper is None else min(upper, -bound)
                elif op is ast.Eq:
                    v0 = -k0 * sign
                    upper = v0 if upper is None else min(upper, v0)
                    lower = v0 if lower is None else max(lower, v0)
            if f_ == {}:
                ok_ = upper is not None and upper <= 0            # N >= L: the whole resource
            elif f_ == {L: 1, 'N__': -1}:
                ok_ = lower is not None and lower >= 0            # N <= L: exactly the last N bytes
        if ok_:
            rep.ok('R13.1', construct, key)
        else:
            rep.fail('R13.1', construct, key,
                     f'on a suffix-range path the start returned with 206 is `{norm(e)[:100]}`, not max(0, {L} - int({p_last})): a '
                     'suffix as long as or longer than the resource must select the whole resource (start 0), a shorter one '
                     f'exactly its last N bytes (path: {pc_show(pc)[:100]})', st)
    Flow(Disjunctive(PathCond(upd=upd, twin=resolve), cap=256), on_exit=each_exit(on_ret)).run(fn, [PathCond.initial()])
    if found == 0:
        raise AnalysisError('get_http_range: no 206 exit on a suffix-range path was found')


def analyse_function(rep: Report) -> tuple[str, str]:
    tree = rep.repo.tree(BASE)
    cls = need(find_class(tree, 'RequestHandlerBase'), f'{BASE}::RequestHandlerBase')
    fn = need(find_func(cls, 'get_http_range'), f'{BASE}::RequestHandlerBase.get_http_range')
    construct = f'{BASE}::RequestHandlerBase.get_http_range'
    params = [a.arg for a in fn.args.args]
    if len(params) != 2:
        raise AnalysisError('get_http_range signature changed')
    L = params[1]
    pieces = _split_pieces(fn)
    if not pieces:
        raise AnalysisError("get_http_range: no `a, b = x.split('-')` idiom recognised")
    suffix_start(rep, fn, construct, L, set(pieces))
    rep.axioms.append("pieces of s.split('-') contain no '-', so int(piece[, 10]) >= 0 "
                      '(or raises ValueError)')
    rep.axioms.append(f'{L} >= 0 (a length)')

    def hook(call: ast.Call, s: Zone, dom: ZoneDomain):
        if dotted(call.func) == 'int' and call.args and isinstance(call.args[0], ast.Name) \
                and call.args[0].id in pieces:
            # the number a piece spells is a value of its own: `#int:<piece>` (>= 0, see the axiom)
            return AVal(f'#int:{call.args[0].id}', 0, 0, True)
        return None

    class RangeDomain(ZoneDomain):
        """+ which pieces of the header are known to be empty / non-empty on the path"""

        def assume(self, test, s, truth):
            t = test
            neg = False
            while isinstance(t, ast.UnaryOp) and isinstance(t.op, ast.Not):
                t, neg = t.operand, not neg
            name = None
            empty_when_true = None
            if isinstance(t, ast.Name) and t.id in pieces:
                name, empty_when_true = t.id, False
            elif isinstance(t, ast.Compare) and len(t.ops) == 1 and isinstance(t.left, ast.Name) \
                    and t.left.id in pieces and isinstance(t.comparators[0], ast.Constant) \
                    and t.comparators[0].value == '':
                if isinstance(t.ops[0], ast.Eq):
                    name, empty_when_true = t.left.id, True
                elif isinstance(t.ops[0], ast.NotEq):
                    name, empty_when_true = t.left.id, False
            if name is not None:
                is_empty = empty_when_true == (truth != neg)
                have_e, have_n = f'empty:{name}' in s.facts, f'nonempty:{name}' in s.facts
                if (is_empty and have_n) or (not is_empty and have_e):
                    return None
                s.facts.add(f'empty:{name}' if is_empty else f'nonempty:{name}')
                return s
            return super().assume(test, s, truth)

    zd = RangeDomain(call_hook=hook)
    dom = Disjunctive(zd)

    def on_stmt(st: ast.stmt, s: Zone) -> None:
        if isinstance(st, (ast.If, ast.While, ast.For, ast.With, ast.Try)):
            return
        # string locals that are templates themselves (`byte_range = f'{start}-{end}'` / '*')
        if isinstance(st, (ast.Assign, ast.AnnAssign)) and st.value is not None:
            tg_ = st.targets[0] if isinstance(st, ast.Assign) else st.target
            if isinstance(tg_, ast.Name) and isinstance(st.value, (ast.JoinedStr, ast.Constant)) \
                    and (isinstance(st.value, ast.JoinedStr) or isinstance(st.value.value, str)):
                s.aux[f'tmpl:{tg_.id}'] = st.value
        cr = _cr_fstring(st, {k[5:]: v for k, v in s.aux.items() if k.startswith('tmpl:')})
        if cr is not None:
            kind, names = cr
            s.aux['cr'] = (kind, tuple((n, s.defs.get(n, frozenset())) for n in names))

    exits = {'206': 0, '416': 0, '200': 0}

    def on_exit(kind: str, st, s: Zone) -> None:
        if kind != 'return':
            return
        if not isinstance(st.value, ast.Tuple) or len(st.value.elts) != 4:
            raise AnalysisError(f'get_http_range: unexpected return shape `{short(st)}`')
        e_start, e_end, e_status, _ = st.value.elts
        lo, hi = zd.interval(zd.eval(e_status, s), s)
        if lo != hi:
            raise AnalysisError(f'get_http_range: status not determined on a path ([{lo}, {hi}])')
        status = int(lo)
        pathdesc = s.describe()
        if status == 200:
            exits['200'] += 1
            if not (isinstance(e_start, ast.Constant) and e_start.value is None):
                rep.fail('R13.1', construct, 'status200',
                         '200 exit returns a non-None range start', st)
            # "no range" may only be reported when the header is absent: the exit must sit in the
            # KeyError handler of the header lookup
            in_absent = False
            for a in ancestors(st):
                if isinstance(a, ast.ExceptHandler) and a.type is not None and 'KeyError' in norm(a.type):
                    tr = getattr(a, '_parent', None)
                    if isinstance(tr, ast.Try) and any("headers['range']" in norm(b).lower()
                                                       or 'headers["range"]' in norm(b).lower()
                                                       for b in tr.body):
                        in_absent = True
            # ... or be taken only when `<v> is None` for a <v> read with headers.get('range')
            for f in s.facts:
                if f.startswith('none:'):
                    v = f[5:]
                    defs = [a for a in ast.walk(fn) if isinstance(a, (ast.Assign, ast.AnnAssign))
                            and a.value is not None
                            and norm(a.targets[0] if isinstance(a, ast.Assign) else a.target) == v]
                    # the definition that reaches this exit (the last one before it in source order of the
                    # normal form; a later reassignment would have retracted the None fact) reads the header
                    from ..core import dfs_order
                    order = dfs_order(fn)
                    before = [d for d in defs if order.get(id(d), 1 << 30) < order.get(id(st), -1)]
                    if before:
                        last = max(before, key=lambda d: order[id(d)])
                        if re.search(r"headers\.get\(['\"]range['\"]", norm(last.value), re.I):
                            in_absent = True
            # ... or under `not self.has_http_range()`, where has_http_range() is the membership test
            if not in_absent:
                child = st
                for a in ancestors(st):
                    if isinstance(a, ast.If):
                        t = norm(a.test)
                        in_body = any(child is b for b in a.body)
                        in_else = any(child is b for b in a.orelse)
                        if (t == 'not self.has_http_range()' and in_body) or \
                                (t == 'self.has_http_range()' and in_else):
                            hh = find_func(enclosing_class(fn), 'has_http_range') if enclosing_class(fn) is not None else None
                            if hh is not None and re.search(r"return\s+['\"]range['\"] in flask\.request\.headers",
                                                            ast.unparse(hh), re.I):
                                in_absent = True
                    child = a
                    if a is fn:
                        break
            if in_absent:
                rep.ok('R13.1', construct, 'no-range exit only when the header is absent')
            else:
                rep.fail('R13.1', construct, f'no-range exit with a header present @{short(st, 40)}',
                         'the function reports "no range" (None, None, 200) although a Range header '
                         'was parsed: the caller serves the full body with 200 - or, where a range is '
                         'mandatory, answers 400 - for a satisfiable range', st)
            return
        cr = s.aux.get('cr')
        sname, ename = norm(e_start), norm(e_end)
        if status == 206:
            exits['206'] += 1
            obligations = [
                ('0 <= start', AVal.const(0), e_start),
                ('start <= end', e_start, e_end),
                (f'end <= {L} - 1', e_end, ast.BinOp(left=ast.Name(id=L, ctx=ast.Load()),
                                                     op=ast.Sub(), right=ast.Constant(value=1))),
            ]
            # the range served is the range asked for: first-byte-pos as given, last-byte-pos never beyond
            # the one given (clamping to the resource only ever lowers it)
            order = _piece_order(fn)
            if len(order) == 2:
                p_first, p_last = order
                if f'nonempty:{p_first}' in s.facts:
                    g = ast.Name(id=f'#int:{p_first}', ctx=ast.Load())
                    obligations.append((f'start == int({p_first})', e_start, g))
                    obligations.append((f'int({p_first}) <= start', g, e_start))
                    if f'nonempty:{p_last}' in s.facts:
                        obligations.append((f'end <= int({p_last})', e_end,
                                            ast.Name(id=f'#int:{p_last}', ctx=ast.Load())))
            for label, a, b in obligations:
                key = f'206:{label}'
                if proves_le(zd, s, a, b):
                    rep.ok('R13.1', construct, key + '@' + _path_id(s))
                else:
                    rep.fail('R13.1', construct, key,
                             f'a path returns 206 where `{label}` is not implied; '
                             f'known on that path: {pathdesc}', st)
            # R13.3
            if cr is None or cr[0] != 'range':
                rep.fail('R13.3', construct, '206:content-range',
                         'a 206 exit is reached without the `bytes a-b/len` Content-Range text', st)
            else:
                names = [n for n, _ in cr[1]]
                stale = [n for n, d in cr[1] if s.defs.get(n, frozenset()) != d]

                def same_value(a_: str, b_: str) -> bool:
                    """the same name, or two integer locals the zone knows to be equal on this path"""
                    if a_ == b_:
                        return True
                    try:
                        ea, eb = ast.parse(a_, mode='eval').body, ast.parse(b_, mode='eval').body
                    except SyntaxError:
                        return False
                    return proves_le(zd, s, ea, eb) and proves_le(zd, s, eb, ea)
                if len(names) != 3 or not all(same_value(x_, y_) for x_, y_ in zip(names, [sname, ename, L])):
                    rep.fail('R13.3', construct, '206:content-range-names',
                             f'Content-Range is built from {names}, the slice returned is '
                             f'({sname}, {ename}) of {L}', st)
                elif stale:
                    rep.fail('R13.3', construct, '206:content-range-stale',
                             f'{stale} reassigned after the Content-Range text was built', st)
                else:
                    rep.ok('R13.3', construct, '206:content-range@' + _path_id(s))
        elif status == 416:
            exits['416'] += 1
            unsat = proves_le(zd, s, ast.Name(id=L, ctx=ast.Load()), e_start) or \
                proves_le(zd, s, ast.BinOp(left=e_end, op=ast.Add(), right=ast.Constant(value=1)),
                          e_start)
            if unsat:
                rep.ok('R13.2', construct, '416@' + _path_id(s))
            else:
                rep.fail('R13.2', construct, '416:satisfiable',
                         f'a path answers 416 although neither start >= {L} nor start > end is '
                         f'implied (a last-byte-pos beyond the end must be clamped, RFC 7233 2.1); '
                         f'known on that path: {pathdesc}', st)
            star_names = [n for n, _ in cr[1]] if cr is not None else []
            length_ok = len(star_names) == 1 and (star_names[0] == L or (
                proves_le(zd, s, ast.Name(id=star_names[0], ctx=ast.Load()), ast.Name(id=L, ctx=ast.Load()))
                and proves_le(zd, s, ast.Name(id=L, ctx=ast.Load()), ast.Name(id=star_names[0], ctx=ast.Load()))))
            if cr is None or cr[0] != 'star' or not length_ok:
                rep.fail('R13.3', construct, '416:content-range',
                         f'416 exit without `bytes */{{{L}}}` Content-Range', st)
            else:
                rep.ok('R13.3', construct, '416:content-range@' + _path_id(s))
        else:
            raise AnalysisError(f'get_http_range: unexpected status {status}')

    init = Zone()
    init.add(ZERO, L, 0)
    init.ints.add(L)
    for p_ in pieces:
        init.add(ZERO, f'#int:{p_}', 0)
        init.ints.add(f'#int:{p_}')
    Flow(dom, on_stmt=each(on_stmt), on_exit=each_exit(on_exit)).run(fn, [init])
    if exits['206'] == 0 or exits['416'] == 0 or exits['200'] == 0:
        raise AnalysisError(f'get_http_range: expected 200, 206 and 416 exits, found {exits}')
    rep.extra['get_http_range_exit_paths'] = exits

    # escape set: explicit raises
    for n in ast.walk(fn):
        if isinstance(n, ast.Raise) and n.exc is not None:
            cn = call_name(n.exc) or dotted(n.exc)
            if cn == 'ValueError':
                rep.ok('R13.4', construct, f'raise:{short(n, 60)}')
            else:
                rep.fail('R13.4', construct, f'raise:{short(n, 60)}',
                         f'raises {cn}, which the callers do not map to 400', n)
    return construct, L


def _path_id(s: Zone) -> str:
    return str(abs(hash(s.describe())) % 100000)


def analyse_callers(rep: Report) -> None:
    n_calls = 0
    sites = []
    for rel in rep.repo.py_files('dashlive'):
        if 'get_http_range' not in rep.repo.source(rel):
            continue
        for cls_, fn_ in rep.repo.expanded_functions(rel):
            for n in ast.walk(fn_):
                if isinstance(n, ast.Call) and isinstance(n.func, ast.Attribute) \
                        and n.func.attr == 'get_http_range':
                    sites.append((rel, cls_, fn_, n))
    for rel, cls, fn, n in sites:
        if True:
            n_calls += 1
            construct = f'{rel}::{cls.name + "." if cls else ""}{fn.name if fn else "?"}'
            # (a) inside try/except ValueError -> 400
            covered = False
            for a in ancestors(n):
                if isinstance(a, ast.Try) and any(n in ast.walk(b) for b in a.body):
                    for h in a.handlers:
                        names = []
                        if h.type is None:
                            names = ['BaseException']
                        else:
                            for t in (h.type.elts if isinstance(h.type, ast.Tuple) else [h.type]):
                                names.append(dotted(t))
                        if {'ValueError', 'Exception', 'BaseException'} & set(names):
                            ret400 = any(
                                isinstance(r, ast.Return) and r.value is not None
                                and any(isinstance(c, ast.Constant) and c.value == 400
                                        for c in ast.walk(r.value))
                                for r in ast.walk(h))
                            if ret400:
                                covered = True
                if a is fn:
                    break
            if covered:
                rep.ok('R13.4', construct, 'except ValueError -> 400')
            else:
                rep.fail('R13.4', construct, 'except ValueError -> 400',
                         'call of get_http_range is not inside try/except ValueError returning 400',
                         n)
            # (b) unpack names and slice convention
            asg = None
            for a in ancestors(n):
                if isinstance(a, ast.Assign):
                    asg = a
                    break
            if asg is not None and isinstance(asg.targets[0], ast.Name):
                # kept in one local first and unpacked later: byte_range = ..; start, end, .. = byte_range
                later = [a for a in ast.walk(fn) if isinstance(a, ast.Assign) and isinstance(a.value, ast.Name)
                         and a.value.id == asg.targets[0].id and isinstance(a.targets[0], ast.Tuple)]
                if len(later) == 1:
                    asg = later[0]
            rec_fields = None
            if asg is not None and isinstance(asg.targets[0], ast.Name):
                # kept as the record the function returns and read by field name: r.start, r.end
                btree = rep.repo.tree(BASE)
                g_raw = find_func(need(find_class(btree, 'RequestHandlerBase'), 'RequestHandlerBase'), 'get_http_range', raw=True)
                rcls = {call_name(r_.value) for r_ in ast.walk(g_raw) if isinstance(r_, ast.Return)
                        and isinstance(r_.value, ast.Call)} if g_raw is not None else set()
                if len(rcls) == 1:
                    rc = next((c_ for c_ in btree.body if isinstance(c_, ast.ClassDef) and c_.name == next(iter(rcls))), None)
                    if rc is not None:
                        fields = [x.target.id for x in rc.body if isinstance(x, ast.AnnAssign) and isinstance(x.target, ast.Name)]
                        if len(fields) == 4:
                            rec_fields = [f'{asg.targets[0].id}.{f_}' for f_ in fields]
            if rec_fields is None and (asg is None or not isinstance(asg.targets[0], ast.Tuple)
                                       or len(asg.targets[0].elts) != 4):
                raise AnalysisError(f'{construct}: result of get_http_range is not unpacked '
                                    'into four names')
            s_name, e_name = rec_fields[:2] if rec_fields is not None else (norm(x) for x in asg.targets[0].elts[:2])
            uses = 0
            # (b0) the length handed in is the length of the bytes that are sliced
            larg = n.args[0] if n.args else None
            sliced = [m for m in ast.walk(fn) if isinstance(m, ast.Subscript) and isinstance(m.slice, ast.Slice)
                      and m.slice.lower is not None and norm(m.slice.lower) == s_name]
            if isinstance(larg, ast.Name):
                defs = [a for a in ast.walk(fn) if isinstance(a, ast.Assign) and len(a.targets) == 1
                        and norm(a.targets[0]) == larg.id and a.lineno < n.lineno]
                if len(defs) == 1:
                    larg = defs[0].value
            if larg is not None and sliced:
                len_of = norm(larg.args[0]) if isinstance(larg, ast.Call) and call_name(larg) == 'len' \
                    and len(larg.args) == 1 else None
                for m in sliced:
                    if len_of is not None and norm(m.value) == len_of:
                        rep.ok('R13.4', construct, f'length of the sliced data:{len_of}')
                    else:
                        rep.fail('R13.4', construct, f'length of the sliced data:{norm(m.value)[:40]}',
                                 f'the range is computed for a resource of length `{norm(larg)}` but cut out '
                                 f'of `{norm(m.value)}`: Content-Range total, 416 decision and the bytes '
                                 'served disagree whenever the two lengths differ', n)
            for m in ast.walk(fn):
                if isinstance(m, ast.Subscript) and isinstance(m.slice, ast.Slice) \
                        and m.slice.lower is not None and norm(m.slice.lower) == s_name:
                    uses += 1
                    # the slice is applied whenever a range was given: a test that guards it may ask whether the
                    # start `is None`, never whether it is true - a range that starts at byte 0 is a range
                    child = m
                    for a_ in ancestors(m):
                        if isinstance(a_, ast.If) and not any(child is t_ for t_ in ast.walk(a_.test)):
                            for x_ in ast.walk(a_.test):
                                if norm(x_) == s_name and isinstance(x_, (ast.Name, ast.Attribute)):
                                    par_ = getattr(x_, '_parent', None)
                                    none_test = isinstance(par_, ast.Compare) and len(par_.ops) == 1 \
                                        and isinstance(par_.ops[0], (ast.Is, ast.IsNot)) \
                                        and isinstance(par_.comparators[0], ast.Constant) and par_.comparators[0].value is None
                                    if none_test:
                                        rep.ok('R13.4', construct, f'slice guarded by `{norm(a_.test)[:40]}`')
                                    else:
                                        rep.fail('R13.4', construct, f'slice guarded by `{norm(a_.test)[:40]}`',
                                                 f'the body is cut to the range only under `{norm(a_.test)}`, which is false for a '
                                                 f'range that starts at byte 0: `bytes=0-N` is answered 206 with the Content-Range of '
                                                 'the slice and the whole body', a_)
                        if a_ is fn:
                            break
                        child = a_
                    up = linear(m.slice.upper) if m.slice.upper is not None else None
                    if up == {e_name: 1, '': 1}:
                        rep.ok('R13.4', construct, f'slice:{norm(m)}')
                    else:
                        rep.fail('R13.4', construct, f'slice:{norm(m)}',
                                 f'slice upper bound is not `{e_name} + 1` (end is inclusive)', m)
                if isinstance(m, ast.Call) and isinstance(m.func, ast.Attribute) \
                        and m.func.attr == 'read' and len(m.args) == 1:
                    arg0 = m.args[0]
                    if isinstance(arg0, ast.Name):
                        ds = [a for a in ast.walk(fn) if isinstance(a, (ast.Assign, ast.AnnAssign))
                              and a.value is not None
                              and norm(a.targets[0] if isinstance(a, ast.Assign) else a.target) == arg0.id]
                        if len(ds) == 1:
                            arg0 = ds[0].value
                    lin = linear(arg0)
                    if lin is not None and (s_name in lin or e_name in lin):
                        uses += 1
                        if lin == {e_name: 1, s_name: -1, '': 1}:
                            rep.ok('R13.4', construct, f'read:{norm(m.args[0])}')
                        else:
                            rep.fail('R13.4', construct, f'read:{norm(m.args[0])}',
                                     f'read length is not `{e_name} - {s_name} + 1`', m)
                if isinstance(m, ast.Call) and call_name(m) and call_name(m).endswith('open_file'):
                    for kw in m.keywords:
                        if kw.arg == 'start' and s_name in norm(kw.value):
                            uses += 1
                            if norm(kw.value) == s_name:
                                rep.ok('R13.4', construct, f'open_file(start={s_name})')
                            else:
                                rep.fail('R13.4', construct, f'open_file(start={norm(kw.value)})',
                                         'file opened at an offset other than the range start', m)
            if uses == 0:
                raise AnalysisError(f'{construct}: no slice/read using the returned range found')
    if n_calls < 2:
        raise AnalysisError(f'expected >= 2 call sites of get_http_range, found {n_calls}')

    # (c) mandatory-range handler
    tree = rep.repo.tree(MEDIA)
    od = need(find_class(tree, 'OnDemandMedia'), f'{MEDIA}::OnDemandMedia')
    get = need(find_func(od, 'get'), f'{MEDIA}::OnDemandMedia.get')
    ok = False
    for n in ast.walk(get):
        if isinstance(n, ast.If) and ' is None' in norm(n.test):
            for r in n.body:
                if isinstance(r, ast.Return) and r.value is not None and any(
                        isinstance(c, ast.Constant) and c.value == 400 for c in ast.walk(r.value)):
                    ok = True
    if ok:
        rep.ok('R13.4', f'{MEDIA}::OnDemandMedia.get', 'absent range -> 400')
    else:
        rep.fail('R13.4', f'{MEDIA}::OnDemandMedia.get', 'absent range -> 400',
                 'the range-only handler does not refuse a request without Range with 400', get)
    # data only read for 206
    # every file read lies on paths whose condition implies status == 206 (guard, early return, ...)
    from ..pathcond import PathCond, entails as pc_entails, show as pc_show
    from ..flow import Disjunctive, Flow
    pcd = PathCond()
    reads: list = []
    unguarded: list = []

    def on_stmt(st, states):
        if isinstance(st, (ast.If, ast.While)):
            roots = [st.test]
        elif isinstance(st, ast.With):
            roots = [i.context_expr for i in st.items]
        elif isinstance(st, (ast.For, ast.Try)):
            roots = []
        else:
            roots = [st]
        for root in roots:
            for x in ast.walk(root):
                if isinstance(x, ast.Call) and isinstance(x.func, ast.Attribute) and \
                        x.func.attr in ('read', 'open_file'):
                    reads.append(x)
                    for state in states:
                        if not any(pc_entails(state[0], ('atom', t)) is True
                                   for t in ('status == 206', '206 == status')):
                            unguarded.append((x, state))
    Flow(Disjunctive(pcd, cap=256), on_stmt=on_stmt).run(get, [PathCond.initial()])
    if not reads:
        raise AnalysisError('OnDemandMedia.get: no file read found')
    if not unguarded:
        rep.ok('R13.4', f'{MEDIA}::OnDemandMedia.get', 'read only when 206', f'{len(reads)} read/open call(s)')
    else:
        x, state = unguarded[0]
        rep.fail('R13.4', f'{MEDIA}::OnDemandMedia.get', 'read only when 206',
                 f'`{short(x, 60)}` is reached on a path that does not imply status == 206 '
                 f'(path condition: {pc_show(state[0])[:100]})', x)


def range_readers(rep: Report) -> None:
    rid = 'R13.5'
    hits = 0
    for rel in rep.repo.py_files('dashlive/server'):
        tree = rep.repo.tree(rel)
        for n in ast.walk(tree):
            is_range = False
            if isinstance(n, ast.Subscript) and isinstance(n.slice, ast.Constant) \
                    and isinstance(n.slice.value, str) and n.slice.value.lower() == 'range' \
                    and 'headers' in norm(n.value):
                is_range = True
            if isinstance(n, ast.Call) and isinstance(n.func, ast.Attribute) and n.func.attr == 'get' \
                    and 'headers' in norm(n.func.value) and n.args \
                    and isinstance(n.args[0], ast.Constant) \
                    and str(n.args[0].value).lower() == 'range':
                is_range = True
            if isinstance(n, ast.Attribute) and n.attr == 'range' and norm(n.value).endswith('request'):
                is_range = True
            if isinstance(n, ast.Compare) and isinstance(n.left, ast.Constant) \
                    and str(n.left.value).lower() == 'range' and 'headers' in norm(n):
                is_range = True
            if not is_range:
                continue
            hits += 1
            fn = enclosing_function(n)
            name = fn.name if fn else '?'
            construct = f'{rel}::{name}'
            if rel == BASE and name in ('get_http_range', 'has_http_range'):
                rep.ok(rid, construct, short(n, 60))
            else:
                rep.fail(rid, construct, short(n, 60),
                         'Range header read outside get_http_range (a second, unchecked '
                         'interpretation of the header)', n)
    if hits == 0:
        raise AnalysisError('no reader of the Range header found at all')


def stored_length(rep: Report) -> None:
    """R13.6  the on-demand handler serves ranges of a stored file against `blob.size`, the length recorded when
    the file was written (upload, or the rewrite by modify_media_file).  A length taken while the writing handle
    is still open misses what sits in its buffer: Content-Range then names a shorter resource, suffix ranges are
    counted from the wrong end, and satisfiable ranges in the tail get 416.  Typestate over every function of
    the package that opens a file for writing: between the open and the close of the handle nothing observes
    the path (stat / getsize / re-open / digest).  Zero occurrences expected; an embedded example is recognised
    on every run."""
    from ..idioms import _OPEN_EXAMPLE, observed_while_written
    rid = 'R13.6'
    if len(observed_while_written(ast.parse(_OPEN_EXAMPLE))[1]) != 1:
        raise AnalysisError('R13.6: the embedded example of a file observed while it is written is not recognised')
    total = 0
    in_models = 0
    for rel in rep.repo.py_files('dashlive'):
        tree = rep.repo.tree(rel)
        for fn in [x for x in ast.walk(tree) if isinstance(x, (ast.FunctionDef, ast.AsyncFunctionDef))]:
            n, found = observed_while_written(fn)
            if not n:
                continue
            total += n
            if rel.startswith('dashlive/server/models/'):
                in_models += n
            construct = f'{rel}::{fn.name}'
            if not found:
                rep.ok(rid, construct, 'file observed after its writer closed', f'{n} write-open block(s)')
            for blk, path, use in found:
                rep.fail(rid, construct, f'{path} observed while written',
                         f'`{short(use, 50)}` (line {use.lineno}) reads the size / content of `{path}` inside the block that '
                         f'still holds it open for writing (line {blk.lineno}): bytes in the handle\'s buffer are not in the file '
                         'yet, the recorded length is short - ranges of the stored file are then computed against the wrong '
                         'total length', use)
    if in_models < 1:
        raise AnalysisError('R13.6: the rewrite of a stored media file (a write-open in dashlive/server/models) was not found')
    # the length that is recorded is that of the file: Blob(size=<path>.stat().st_size) for the path that was written
    for rel in ('dashlive/server/models/mediafile.py', 'dashlive/server/models/stream.py'):
        tree = rep.repo.tree(rel)
        for fn in [x for x in ast.walk(tree) if isinstance(x, (ast.FunctionDef, ast.AsyncFunctionDef))]:
            for c in [x for x in ast.walk(fn) if isinstance(x, ast.Call) and (call_name(x) or '').split('.')[-1] == 'Blob']:
                kw = {k.arg: k.value for k in c.keywords}
                if 'size' not in kw or 'filename' not in kw:
                    continue
                from ..core import subst_locals
                sz = norm(subst_locals(fn, kw['size'], allow_calls=True))
                fnm = norm(subst_locals(fn, kw['filename'], allow_calls=True))
                construct = f'{rel}::{fn.name}'
                m = re.fullmatch(r'(.+)\.stat\(\)\.st_size', sz)
                base = m.group(1) if m else None
                stem = fnm[:-5] if fnm.endswith('.name') else fnm
                if base is not None and stem in base:       # the path that is measured is (a folder joined with) the named file
                    rep.ok(rid, construct, 'Blob size is the size of the named file', f'size={sz} filename={fnm}')
                else:
                    rep.fail(rid, construct, 'Blob size is the size of the named file',
                             f'the Blob for `{fnm}` is recorded with size `{sz}`, not with the size of that file on disk', c)


def analyse(rep: Report) -> None:
    rep.explanation = (
        'Path-sensitive zone-domain abstract interpretation of RequestHandlerBase.get_http_range '
        '(trace partitioning, no joins: the function is loop-free) proving the 206 bounds and the '
        '416 unsatisfiability on every exit path, reaching-definitions agreement between the '
        'Content-Range text and the returned slice, plus call-site discipline of both callers. '
        'Body/slice equality is decided only structurally (same variables, inclusive convention).')
    rep.rule('R13.1', '206 exits imply 0 <= start <= end <= length-1', floor=6)
    rep.rule('R13.2', '416 exits imply the range is unsatisfiable', floor=1)
    rep.rule('R13.3', 'Content-Range text is built from the values returned', floor=2)
    rep.rule('R13.4', 'callers map ValueError to 400 and slice with an inclusive end', floor=7)
    rep.rule('R13.5', 'only get_http_range / has_http_range read the Range header', floor=2)
    rep.rule('R13.6', 'the stored length of a media file is taken from the file after its writer has closed it', floor=3)
    analyse_function(rep)
    analyse_callers(rep)
    range_readers(rep)
    stored_length(rep)

#!/usr/bin/env python
"""
Triage demonstration for C03 R03.7 (not part of any check: it RUNS repository code, the checks do not).

    cd /repo && PYTHONPATH=/repo /venv/bin/python /verif/tools/demos/c03_explicit_base.py

The stored fixture bbb_v7.mp4 (tfhd default-base-is-moof, trun with data_offset) is re-laid out in
the two other layouts ISO/IEC 14496-12 allows and that C03 quantifies over ("default-base-is-moof
or explicit base offset"):
  L1  tfhd with an explicit base_data_offset (= stored position of the moof), trun with data_offset
  L2  tfhd with an explicit base_data_offset (= stored position of the payload), trun without data_offset
  L1n, L2n  the same without the optional styp/sidx boxes in the stored segment
Each stored file is checked with an independent box reader first, then served through the REAL
MediaRequestBase.generate_media_segment (harness of neutral/RS03/demo.py).
exit 0 = every served segment is well formed and addresses its payload, 1 = not.
"""
import importlib.util
import io
import json
import struct
import sys
from pathlib import Path

HERE = Path(__file__).resolve()
spec = importlib.util.spec_from_file_location(
    'c03_harness', HERE.parent.parent.parent / 'neutral' / 'RS03' / 'demo.py')
H = importlib.util.module_from_spec(spec)
spec.loader.exec_module(H)

from dashlive.mpeg import mp4                                   # noqa: E402
from dashlive.mpeg.dash.representation import Representation    # noqa: E402
from dashlive.utils.buffered_reader import BufferedReader       # noqa: E402


def relayout(media, layout: str):
    """returns (bytes, Representation) of the same media with every fragment in the given layout"""
    rep = media.representation
    js = json.loads(json.dumps(rep.toJSON(pure=True)))
    out = io.BytesIO()
    segs = []
    for idx, seg in enumerate(rep.segments):
        raw = media.data[seg.pos:seg.pos + seg.size]
        pos = out.tell()
        if idx == 0:
            out.write(raw)
        else:
            src = BufferedReader(io.BytesIO(raw), offset=0, size=len(raw))
            wrap = mp4.Mp4Atom.load(src, options=mp4.Options(mode='rw', lazy_load=False), use_wrapper=True)
            moof = wrap.moof
            tfhd, trun = moof.traf.tfhd, moof.traf.trun
            tfhd.flags = (tfhd.flags | tfhd.base_data_offset_present) & ~tfhd.default_base_is_moof
            grow = 8
            moof_pos = pos + moof.position
            if layout.endswith('n'):
                # a stored segment without the optional sidx index
                for name in ('sidx', 'styp'):
                    if wrap.find_child(name) is not None:
                        wrap.remove_child(wrap.index(name))
            if layout.startswith('L1'):
                tfhd.base_data_offset = moof_pos
                trun.data_offset += grow
            else:
                trun.flags &= ~trun.data_offset_present
                grow -= 4
                tfhd.base_data_offset = moof_pos + moof.size + grow + 8
            wrap.encode(out)
        segs.append({'pos': pos, 'size': out.tell() - pos, 'duration': seg.duration})
    js['segments'] = segs
    return out.getvalue(), Representation(**js)


class Media(H.FakeMediaFile):
    def __init__(self, base, layout):
        self.__dict__.update(base.__dict__)
        self.data, self.representation = relayout(base, layout)

    def open_file(self, start=None, buffer_size=16384):
        import contextlib

        @contextlib.contextmanager
        def _open():
            src = io.BytesIO(self.data)
            if start is not None:
                src.seek(start)
            yield src
        return _open()


def check_stored(media) -> None:
    """the stored file itself is valid: absolute base + data_offset == first payload byte"""
    for seg in media.representation.segments[1:]:
        top = H.read_boxes(media.data, seg.pos, seg.pos + seg.size, 'stored')
        moof, mdat = H.one(top, b'moof', 'stored'), H.one(top, b'mdat', 'stored')
        traf = H.one(moof['children'], b'traf', 'moof')
        tfhd, trun = H.one(traf['children'], b'tfhd', 'traf'), H.one(traf['children'], b'trun', 'traf')
        d = media.data
        tf = struct.unpack('>I', d[tfhd['pos'] + 8:tfhd['pos'] + 12])[0] & 0xFFFFFF
        assert tf & 1 and not tf & 0x20000
        base = struct.unpack('>Q', d[tfhd['pos'] + 16:tfhd['pos'] + 24])[0]
        tr = struct.unpack('>I', d[trun['pos'] + 8:trun['pos'] + 12])[0] & 0xFFFFFF
        off = struct.unpack('>i', d[trun['pos'] + 16:trun['pos'] + 20])[0] if tr & 1 else 0
        assert base + off == mdat['pos'] + mdat['hdr'], (base, off, mdat)


def main() -> int:
    ns = H.load_handler_namespace()
    base = H.FakeMediaFile('bbb', 'bbb_v7', 'video')
    ping = {'events': 'ping', 'ping__inband': '1', 'ping__count': '0', 'ping__start': '0',
            'ping__interval': '150', 'ping__timescale': '100'}
    bad = 0
    for layout in ('L1', 'L1n', 'L2', 'L2n'):
        media = Media(base, layout)
        check_stored(media)
        stream = H.FakeStream(media)
        print(f'{layout}: stored file valid ({len(media.representation.segments) - 1} fragments)')
        for name, cgi in (('vod, no events', {}), ('vod, in-band ping events', ping)):
            for seg_num in (1, 2, 3):
                label = f'{layout} {name}: segment {seg_num}'
                try:
                    body, mod = H.serve(ns, media, stream, 'vod', cgi, seg_num)
                    H.check_segment(body, H.stored_payload(media, mod))
                    print('ok    ', label)
                except H.Broken as err:
                    bad += 1
                    print('BROKEN', label, '-', err)
                except Exception as err:
                    bad += 1
                    print('BROKEN', label, '- handler raised', type(err).__name__, err)
    return 1 if bad else 0


if __name__ == '__main__':
    sys.exit(main())

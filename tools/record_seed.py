#!/venv/bin/python
"""tools/record_seed.py <PROP> <name> <slug> <caught-by or MISSED> <needs...>  -- copy a confirmed seed into /verif/seeded"""
import json, shutil, sys, pathlib, subprocess
prop, name, slug, caught = sys.argv[1:5]
needs = ' '.join(sys.argv[5:])
src = pathlib.Path('/tmp/wt-out') / name
dst = pathlib.Path('/verif/seeded') / f'{prop}-{slug}'
dst.mkdir(parents=True, exist_ok=True)
shutil.copy(src / 'patch.diff', dst / 'patch.diff')
shutil.copy(src / 'demo.py', dst / 'demo.py')
for extra in src.iterdir():      # helper packages a demonstration imports from its own directory
    if extra.is_dir() and extra.name != '__pycache__':
        shutil.copytree(extra, dst / extra.name, dirs_exist_ok=True, ignore=shutil.ignore_patterns('__pycache__'))
if (src / 'README.md').exists():
    shutil.copy(src / 'README.md', dst / 'README.md')
files = sorted({l[6:].strip() for l in (dst / 'patch.diff').read_text().splitlines() if l.startswith('+++ b/')})
meta = {
    'property': prop,
    'files_changed': files,
    'needs_to_manifest': needs,
    'confirmed': {
        'demo_clean_exit': 0, 'demo_patched_exit': 'non-zero', 'baseline_tests_with_patch': '87 passed',
        'how': f'tools/eval_seed_wt.sh {name}: demo run in a fresh scratch worktree without and with the '
               'patch, pinned test suite with the patch, all 18 quick checks against the patched worktree; then '
               '`git -C /repo apply`, the quick check of the property, `git -C /repo checkout -- .`'},
    'detected_by': caught,
    'source': 'fresh sub-agent given only the property text and its own worktree',
}
(dst / 'meta.json').write_text(json.dumps(meta, indent=1) + '\n')
print(dst)

"""E5 - abstract interpreter: zone (difference-bound) domain over named numbers.

State  = conjunction of constraints  a - b <= c  over variable names and the
         distinguished ZERO, kept closed (Floyd-Warshall); intervals are the
         constraints against ZERO.  Variables are plain names and dotted
         attribute chains (`self.pos`).
Values = (base, lo, hi, isint): base + [lo, hi] when base is a variable, the
         plain interval otherwise.

Everything is an over-approximation of the concrete semantics of the integer /
float code it is run on; tests refine both branches.  No solver: implication
is constraint closure.
"""
from __future__ import annotations

import ast
import math
from dataclasses import dataclass
from typing import Any, Callable

from .core import dotted, norm
from .flow import Domain

INF = math.inf
ZERO = '0'
BELOW_ONE = math.nextafter(1.0, 0.0)


@dataclass(frozen=True)
class AVal:
    base: str | None
    lo: float
    hi: float
    isint: bool = False
    extra: tuple = ()      # further relations ((var, lo, hi), ...): value - var in [lo, hi]
    tag: tuple = ()        # client annotation (provenance of the value)

    @staticmethod
    def top(isint: bool = False) -> 'AVal':
        return AVal(None, -INF, INF, isint)

    @staticmethod
    def const(v) -> 'AVal':
        return AVal(None, v, v, isinstance(v, int))


class Zone:
    def __init__(self) -> None:
        self.m: dict[tuple[str, str], float] = {}
        self.ints: set[str] = set()
        self.facts: set[str] = set()        # opaque must-facts (client use)
        self.defs: dict[str, frozenset] = {}  # reaching definitions per variable
        self.aux: dict[str, Any] = {}       # client snapshots (kept when equal on join)
        self.bottom = False
        self.dirty = True                   # constraints added since the last closure

    # ---- basic ---------------------------------------------------------
    def copy(self) -> 'Zone':
        z = Zone()
        z.m = dict(self.m)
        z.ints = set(self.ints)
        z.facts = set(self.facts)
        z.defs = dict(self.defs)
        z.aux = dict(self.aux)
        z.bottom = self.bottom
        z.dirty = self.dirty
        return z

    def __eq__(self, o) -> bool:
        if not isinstance(o, Zone):
            return NotImplemented
        self.close()
        o.close()
        return (self.bottom == o.bottom and self.m == o.m and self.ints == o.ints
                and self.facts == o.facts and self.defs == o.defs and self.aux == o.aux)

    __hash__ = None

    def vars(self) -> set[str]:
        v = {ZERO}
        for a, b in self.m:
            v.add(a)
            v.add(b)
        return v

    def add(self, a: str, b: str, c: float) -> None:
        """a - b <= c"""
        if a == b:
            if c < 0:
                self.bottom = True
            return
        if c == INF:
            return
        old = self.m.get((a, b), INF)
        if c < old:
            self.m[(a, b)] = c
            self.dirty = True

    def close(self) -> bool:
        if not self.dirty:
            return not self.bottom
        self.dirty = False
        vs = sorted(self.vars())
        m = self.m
        for k in vs:
            for i in vs:
                if i == k:
                    continue
                ik = m.get((i, k))
                if ik is None:
                    continue
                for j in vs:
                    if j == k or j == i:
                        if j == i:
                            kj = m.get((k, j))
                            if kj is not None and ik + kj < 0:
                                self.bottom = True
                                return False
                        continue
                    kj = m.get((k, j))
                    if kj is None:
                        continue
                    c = ik + kj
                    if c < m.get((i, j), INF):
                        m[(i, j)] = c
        for (a, b), c in list(m.items()):
            r = m.get((b, a))
            if r is not None and c + r < 0:
                self.bottom = True
                return False
        return True

    def forget(self, x: str) -> None:
        self.close()
        for k in [k for k in self.m if x in k]:
            del self.m[k]
        self.ints.discard(x)

    def forget_prefix(self, prefix: str) -> None:
        for v in list(self.vars()):
            if v.startswith(prefix):
                self.forget(v)

    def bound(self, x: str) -> tuple[float, float]:
        hi = self.m.get((x, ZERO), INF)
        lo = -self.m.get((ZERO, x), INF)
        return lo, hi

    def upper_diff(self, a: str, b: str) -> float:
        """least known c with a - b <= c"""
        if a == b:
            return 0
        self.close()
        return self.m.get((a, b), INF)

    # ---- lattice -------------------------------------------------------
    def join(self, o: 'Zone') -> 'Zone':
        self.close()
        o.close()
        z = Zone()
        for k, c in self.m.items():
            if k in o.m:
                z.m[k] = max(c, o.m[k])
        z.ints = self.ints & o.ints
        z.facts = self.facts & o.facts
        for k in set(self.defs) | set(o.defs):
            z.defs[k] = self.defs.get(k, frozenset({'?'})) | o.defs.get(k, frozenset({'?'}))
        for k, v in self.aux.items():
            if k in o.aux and o.aux[k] == v:
                z.aux[k] = v
        return z

    def leq(self, o: 'Zone') -> bool:
        self.close()
        for k, c in o.m.items():
            if self.m.get(k, INF) > c:
                return False
        return o.facts <= self.facts

    def widen(self, new: 'Zone') -> 'Zone':
        z = Zone()
        for k, c in self.m.items():
            if new.m.get(k, INF) <= c:
                z.m[k] = c
        z.ints = self.ints & new.ints
        z.facts = self.facts & new.facts
        for k in set(self.defs) | set(new.defs):
            z.defs[k] = self.defs.get(k, frozenset({'?'})) | new.defs.get(k, frozenset({'?'}))
        z.aux = {k: v for k, v in self.aux.items() if new.aux.get(k) == v}
        return z

    def describe(self, names: list[str] | None = None) -> str:
        self.close()
        out = []
        for (a, b), c in sorted(self.m.items()):
            if names and not ({a, b} - {ZERO} <= set(names)):
                continue
            if b == ZERO:
                out.append(f'{a} <= {c:g}')
            elif a == ZERO:
                out.append(f'{b} >= {-c:g}')
            else:
                out.append(f'{a} - {b} <= {c:g}')
        return '; '.join(out)


def _mul(a: float, b: float) -> float:
    if a == 0 or b == 0:
        return 0
    return a * b


class ZoneDomain(Domain):
    """Flow domain.  `call_hook(call, state, interp) -> AVal | None` supplies
    axioms for calls (e.g. int(<split piece>) >= 0); `pure_calls` are dotted
    callee names known not to modify tracked attributes."""

    def __init__(self, call_hook: Callable[[ast.Call, Zone, 'ZoneDomain'], AVal | None] | None = None,
                 pure_calls: set[str] | None = None,
                 attr_roots: tuple[str, ...] = ('self',)) -> None:
        self.call_hook = call_hook
        self.pure_calls = pure_calls or set()
        self.attr_roots = attr_roots

    # ---- lattice plumbing ---------------------------------------------
    def copy(self, s: Zone): return s.copy()
    def join(self, a: Zone, b: Zone): return a.join(b)
    def leq(self, a: Zone, b: Zone): return a.leq(b)
    def widen(self, old: Zone, new: Zone): return old.widen(new)

    # ---- expression evaluation ------------------------------------------
    def varname(self, node: ast.AST) -> str | None:
        if isinstance(node, ast.Name):
            return node.id
        if isinstance(node, ast.Attribute):
            d = dotted(node)
            if d and d.split('.')[0] in self.attr_roots:
                return d
        return None

    def interval(self, v: AVal, s: Zone) -> tuple[float, float]:
        if v.base is None:
            return v.lo, v.hi
        lo, hi = s.bound(v.base)
        return lo + v.lo, hi + v.hi

    def eval(self, e: ast.AST, s: Zone) -> AVal:
        if isinstance(e, ast.Constant):
            if isinstance(e.value, bool):
                return AVal(None, int(e.value), int(e.value), True)
            if isinstance(e.value, (int, float)):
                return AVal.const(e.value)
            if e.value is None:
                return AVal(None, -INF, INF, False, (), ('none',))
            return AVal.top()
        name = self.varname(e)
        if name is not None:
            s.close()
            return AVal(name, 0, 0, name in s.ints)
        if isinstance(e, ast.UnaryOp):
            v = self.eval(e.operand, s)
            if isinstance(e.op, ast.USub):
                lo, hi = self.interval(v, s)
                return AVal(None, -hi, -lo, v.isint)
            if isinstance(e.op, ast.UAdd):
                return v
            return AVal.top()
        if isinstance(e, ast.BinOp):
            return self._binop(e, s)
        if isinstance(e, ast.Call):
            return self._call(e, s)
        if isinstance(e, ast.IfExp):
            st = self.assume(e.test, s.copy(), True)
            sf = self.assume(e.test, s.copy(), False)
            vals = []
            if st is not None:
                vals.append(self.interval(self.eval(e.body, st), st)
                            + (self.eval(e.body, st).isint,))
            if sf is not None:
                vals.append(self.interval(self.eval(e.orelse, sf), sf)
                            + (self.eval(e.orelse, sf).isint,))
            if not vals:
                return AVal.top()
            return AVal(None, min(v[0] for v in vals), max(v[1] for v in vals),
                        all(v[2] for v in vals))
        if isinstance(e, ast.NamedExpr):
            return self.eval(e.value, s)
        return AVal.top()

    def _binop(self, e: ast.BinOp, s: Zone) -> AVal:
        # axiom: x - floor(x) in [0, 1)
        if isinstance(e.op, ast.Sub) and isinstance(e.right, ast.Call):
            cn = dotted(e.right.func)
            if cn in ('math.floor', 'floor', 'int') and len(e.right.args) == 1 \
                    and norm(e.right.args[0]) == norm(e.left):
                if cn != 'int':
                    return AVal(None, 0.0, BELOW_ONE, False)
                lo, hi = self.interval(self.eval(e.left, s), s)
                if lo >= 0:
                    return AVal(None, 0.0, BELOW_ONE, False)
                return AVal(None, -BELOW_ONE, BELOW_ONE, False)
        a = self.eval(e.left, s)
        b = self.eval(e.right, s)
        alo, ahi = self.interval(a, s)
        blo, bhi = self.interval(b, s)
        isint = a.isint and b.isint
        if isinstance(e.op, ast.Add):
            if a.base is not None and b.base is None:
                return AVal(a.base, a.lo + b.lo, a.hi + b.hi, isint)
            if b.base is not None and a.base is None:
                return AVal(b.base, a.lo + b.lo, a.hi + b.hi, isint)
            if a.base is not None and b.base is not None:
                # keep one relation, bound the other term by its interval
                return AVal(a.base, a.lo + blo, a.hi + bhi, isint)
            return AVal(None, alo + blo, ahi + bhi, isint)
        if isinstance(e.op, ast.Sub):
            if a.base is not None and b.base is None:
                return AVal(a.base, a.lo - b.hi, a.hi - b.lo, isint)
            if a.base is not None and b.base is not None:
                if a.base == b.base:
                    return AVal(None, a.lo - b.hi, a.hi - b.lo, isint)
                # a - b: two candidates, both sound: the zone's bound on the
                # difference, or keep a's relation and subtract b's interval.
                up = s.upper_diff(a.base, b.base)
                dn = s.upper_diff(b.base, a.base)
                dlo, dhi = -dn + a.lo - b.hi, up + a.hi - b.lo
                if dlo > -INF or dhi < INF:
                    return AVal(None, max(dlo, alo - bhi), min(dhi, ahi - blo), isint)
                return AVal(a.base, a.lo - bhi, a.hi - blo, isint)
            return AVal(None, alo - bhi, ahi - blo, isint)
        if isinstance(e.op, ast.Mult):
            cands = [_mul(alo, blo), _mul(alo, bhi), _mul(ahi, blo), _mul(ahi, bhi)]
            if any(math.isnan(c) for c in cands):
                return AVal.top(isint)
            return AVal(None, min(cands), max(cands), isint)
        if isinstance(e.op, ast.FloorDiv):
            isint = True                      # a floor quotient is integral whatever the operand types
            if blo == bhi and blo > 0 and blo != INF:
                return AVal(None, math.floor(alo / blo) if alo > -INF else -INF,
                            math.floor(ahi / blo) if ahi < INF else INF, isint)
            if blo > 0 and alo >= 0:
                return AVal(None, 0, ahi // blo if ahi < INF and blo > 0 else INF, isint)
            return AVal.top(isint)
        if isinstance(e.op, ast.Div):
            if blo == bhi and blo > 0 and blo != INF:
                return AVal(None, alo / blo, ahi / blo, False)
            return AVal.top()
        if isinstance(e.op, ast.Mod):
            if blo == bhi and blo > 0 and blo != INF:
                if 0 <= alo and ahi < blo:
                    return AVal(None, alo, ahi, isint)
                if isint:
                    return AVal(None, 0, blo - 1, True)
                return AVal(None, 0, blo, False)
            if blo > 0:
                return AVal(None, 0, bhi - 1 if isint else bhi, isint)
            return AVal.top(isint)
        if isinstance(e.op, ast.BitAnd):
            for m, o in ((b, a), (a, b)):
                mlo, mhi = self.interval(m, s)
                if mlo == mhi and mlo >= 0 and mlo != INF:
                    return AVal(None, 0, mlo, True)
            return AVal.top(True)
        if isinstance(e.op, ast.LShift):
            if alo == ahi and blo == bhi and 0 <= blo < 128 and alo >= 0:
                return AVal.const(int(alo) << int(blo))
            return AVal.top(True)
        if isinstance(e.op, ast.Pow):
            if alo == ahi and blo == bhi and 0 <= blo < 128 and a.isint and b.isint:
                return AVal.const(int(alo) ** int(blo))
            return AVal.top(isint)
        return AVal.top()

    def _call(self, e: ast.Call, s: Zone) -> AVal:
        if self.call_hook is not None:
            r = self.call_hook(e, s, self)
            if r is not None:
                return r
        cn = dotted(e.func)
        args = e.args
        if cn == 'int' and len(args) == 1 and not e.keywords:
            v0 = self.eval(args[0], s)
            lo, hi = self.interval(v0, s)
            tl = math.trunc(lo) if abs(lo) != INF else lo
            th = math.trunc(hi) if abs(hi) != INF else hi
            if v0.base is not None and (v0.isint or (v0.base in s.ints and v0.lo == math.floor(v0.lo)
                                                     and v0.hi == math.floor(v0.hi))):
                return AVal(v0.base, v0.lo, v0.hi, True, ((ZERO, tl, th),))     # int of a whole number
            if v0.base is not None and lo >= 0:
                return AVal(v0.base, v0.lo - BELOW_ONE, v0.hi, True, ((ZERO, tl, th),))
            return AVal(None, tl, th, True)
        if cn == 'int':
            return AVal.top(True)
        if cn in ('math.floor', 'floor') and len(args) == 1:
            v0 = self.eval(args[0], s)
            lo, hi = self.interval(v0, s)
            flo = math.floor(lo) if abs(lo) != INF else lo
            fhi = math.floor(hi) if abs(hi) != INF else hi
            if v0.base is not None:
                # floor(x) in (x - 1, x]: keep the relation to x as well as the absolute bounds
                return AVal(v0.base, v0.lo - BELOW_ONE, v0.hi, True, ((ZERO, flo, fhi),))
            return AVal(None, flo, fhi, True)
        if cn in ('math.ceil', 'ceil') and len(args) == 1:
            lo, hi = self.interval(self.eval(args[0], s), s)
            return AVal(None, math.ceil(lo) if abs(lo) != INF else lo,
                        math.ceil(hi) if abs(hi) != INF else hi, True)
        if cn == 'round' and len(args) == 1:
            lo, hi = self.interval(self.eval(args[0], s), s)
            return AVal(None, round(lo) if abs(lo) != INF else lo,
                        round(hi) if abs(hi) != INF else hi, True)
        if cn == 'float' and len(args) == 1:
            v = self.eval(args[0], s)
            lo, hi = self.interval(v, s)
            return AVal(None, lo, hi, False)
        if cn == 'abs' and len(args) == 1:
            v = self.eval(args[0], s)
            lo, hi = self.interval(v, s)
            if lo >= 0:
                return AVal(None, lo, hi, v.isint)
            return AVal(None, 0, max(abs(lo), abs(hi)), v.isint)
        if cn == 'len':
            return AVal(None, 0, INF, True)
        if cn in ('min', 'max') and len(args) >= 2 and not e.keywords:
            vals = [self.eval(a, s) for a in args]
            ivs = [self.interval(v, s) for v in vals]
            isint = all(v.isint for v in vals)
            if cn == 'min':
                return AVal(None, min(i[0] for i in ivs), min(i[1] for i in ivs), isint)
            return AVal(None, max(i[0] for i in ivs), max(i[1] for i in ivs), isint)
        return AVal.top()

    # ---- assignment ----------------------------------------------------
    def assign(self, s: Zone, x: str, v: AVal, rhs: ast.AST | None = None) -> None:
        s.facts -= {f'none:{x}', f'some:{x}'}
        if v.tag == ('none',):
            s.facts.add(f'none:{x}')
        elif v.base is not None and v.lo == 0 == v.hi and v.base != x:
            copied = False
            for k in ('none', 'some'):
                if f'{k}:{v.base}' in s.facts:
                    s.facts.add(f'{k}:{x}')
                    copied = True
            if not copied and v.base.startswith('#'):
                s.facts.add(f'some:{x}')      # ghost values (the number a text spells) are numbers
        elif v.base == x:
            pass
        else:
            lo_, hi_ = self.interval(v, s)
            if lo_ > -INF or hi_ < INF or isinstance(rhs, (ast.BinOp, ast.Constant)) or v.isint:
                s.facts.add(f'some:{x}')
        if v.base == x:
            # x := x + [lo, hi]
            s.close()
            for (a, b), c in list(s.m.items()):
                if a == x:
                    s.m[(a, b)] = c + v.hi
                elif b == x:
                    s.m[(a, b)] = c - v.lo
            s.dirty = True
            if not v.isint:
                s.ints.discard(x)
            else:
                s.ints.add(x)
            for var, elo, ehi in v.extra:
                if var == ZERO:
                    if ehi < INF:
                        s.add(x, ZERO, ehi)
                    if elo > -INF:
                        s.add(ZERO, x, -elo)
            s.dirty = True
            s.close()
            return
        lo, hi = self.interval(v, s)
        extra: list[tuple[str, str, float]] = []
        if v.base is not None:
            extra.append((x, v.base, v.hi))
            extra.append((v.base, x, -v.lo))
        # min / max give relational facts about the result
        ghost = None
        if isinstance(rhs, ast.Call) and dotted(rhs.func) in ('min', 'max') \
                and len(rhs.args) >= 2 and not rhs.keywords:
            for a in rhs.args:
                av = self.eval(a, s)
                if av.base is not None and av.base != x:
                    if dotted(rhs.func) == 'min':
                        extra.append((x, av.base, av.hi))      # x <= a
                    else:
                        extra.append((av.base, x, -av.lo))     # x >= a
                elif av.base == x:
                    # x = min(.., x): the new value is bounded by the old one, which a ghost name keeps
                    # while x itself is forgotten
                    ghost = f'#old:{x}'
                    s.forget(ghost)
                    s.add(ghost, x, 0)
                    s.add(x, ghost, 0)
                    s.close()
                    if dotted(rhs.func) == 'min':
                        extra.append((x, ghost, av.hi))
                    else:
                        extra.append((ghost, x, -av.lo))
        s.forget(x)
        s.add(x, ZERO, hi)
        s.add(ZERO, x, -lo)
        for a, b, c in extra:
            s.add(a, b, c)
        for var, elo, ehi in v.extra:
            if var == x:
                continue
            if ehi < INF:
                s.add(x, var, ehi)
            if elo > -INF:
                s.add(var, x, -elo)
        if v.isint:
            s.ints.add(x)
        s.close()
        if ghost is not None:
            s.forget(ghost)

    def _havoc_target(self, s: Zone, t: ast.AST) -> None:
        if isinstance(t, (ast.Tuple, ast.List)):
            for el in t.elts:
                self._havoc_target(s, el)
            return
        if isinstance(t, ast.Starred):
            self._havoc_target(s, t.value)
            return
        n = self.varname(t)
        if n is not None:
            s.forget(n)

    def _calls_effects(self, node: ast.AST, s: Zone) -> None:
        """Calls through a tracked root (self.m(...)) may change self.*"""
        for c in ast.walk(node):
            if isinstance(c, ast.Call):
                cn = dotted(c.func)
                if cn is None:
                    continue
                root = cn.split('.')[0]
                if root in self.attr_roots and cn not in self.pure_calls and '.' in cn:
                    # calling a method of an attribute (self.reader.seek) does not
                    # change self's own numeric fields; calling self.m() may.
                    if cn.count('.') == 1:
                        s.forget_prefix(root + '.')

    def _record_bool(self, st: ast.stmt, s: Zone) -> None:
        """remember `ok = <comparison / and / or / not>` so that `if ok:` refines like the expression"""
        tgt = val = None
        if isinstance(st, ast.Assign) and len(st.targets) == 1:
            tgt, val = st.targets[0], st.value
        elif isinstance(st, ast.AnnAssign) and st.value is not None:
            tgt, val = st.target, st.value
        if not isinstance(tgt, ast.Name):
            return
        for k in [k for k in s.aux if k.startswith('bool:')]:
            if tgt.id in s.aux[k][1]:
                del s.aux[k]
        s.aux.pop(f'bool:{tgt.id}', None)
        if isinstance(val, (ast.Compare, ast.BoolOp)) or (isinstance(val, ast.UnaryOp)
                                                           and isinstance(val.op, ast.Not)):
            used = frozenset(n.id for n in ast.walk(val) if isinstance(n, ast.Name))
            s.aux[f'bool:{tgt.id}'] = (val, used)

    def _record_defs(self, st: ast.stmt, s: Zone) -> None:
        targets: list[ast.AST] = []
        if isinstance(st, ast.Assign):
            targets = list(st.targets)
        elif isinstance(st, (ast.AnnAssign, ast.AugAssign)):
            if not (isinstance(st, ast.AnnAssign) and st.value is None):
                targets = [st.target]
        did = f'{getattr(st, "lineno", 0)}:{norm(st)[:60]}'
        stack = targets
        while stack:
            t = stack.pop()
            if isinstance(t, (ast.Tuple, ast.List)):
                stack.extend(t.elts)
                continue
            n = self.varname(t)
            if n is not None:
                s.defs[n] = frozenset({did})

    def transfer(self, st: ast.stmt, s: Zone):
        self._record_defs(st, s)
        out = self._transfer(st, s)
        if out is not None:
            for t in ([st.target] if isinstance(st, (ast.AugAssign,)) else []):
                if isinstance(t, ast.Name):
                    for k in [k for k in out.aux if k.startswith('bool:') and t.id in out.aux[k][1]]:
                        del out.aux[k]
            self._record_bool(st, out)
        return out

    def _transfer(self, st: ast.stmt, s: Zone):
        if isinstance(st, ast.Assign):
            self._calls_effects(st.value, s)
            if len(st.targets) == 1:
                t = st.targets[0]
                n = self.varname(t)
                if n is not None:
                    self.assign(s, n, self.eval(st.value, s), st.value)
                    return s
                if isinstance(t, ast.Tuple) and isinstance(st.value, ast.Tuple) \
                        and len(t.elts) == len(st.value.elts):
                    vals = [(self.eval(v, s), v) for v in st.value.elts]
                    tnames = [self.varname(el) for el in t.elts]
                    bases = {v.base for v, _ in vals if v.base is not None}
                    if not (bases & {n for n in tnames if n}):
                        # no target is read by another element: keep the relations
                        ivs = [v for v, _ in vals]
                    else:
                        ivs = [AVal(None, *self.interval(v, s), v.isint, (), v.tag if v.tag == ('none',) else ())
                               for v, _ in vals]
                    for el, v in zip(t.elts, ivs):
                        n = self.varname(el)
                        if n is not None:
                            self.assign(s, n, v)
                    return s
                if isinstance(t, ast.Tuple) and isinstance(st.value, ast.Call) \
                        and dotted(st.value.func) == 'divmod' and len(t.elts) == 2 \
                        and len(st.value.args) == 2:
                    num, den = st.value.args
                    q = self.eval(ast.BinOp(left=num, op=ast.FloorDiv(), right=den), s)
                    r = self.eval(ast.BinOp(left=num, op=ast.Mod(), right=den), s)
                    q = AVal(None, *self.interval(q, s), q.isint)
                    r = AVal(None, *self.interval(r, s), r.isint)
                    for el, v in zip(t.elts, (q, r)):
                        n = self.varname(el)
                        if n is not None:
                            self.assign(s, n, v)
                    return s
            for t in st.targets:
                self._havoc_target(s, t)
            return s
        if isinstance(st, ast.AnnAssign):
            n = self.varname(st.target)
            if st.value is not None:
                self._calls_effects(st.value, s)
                if n is not None:
                    self.assign(s, n, self.eval(st.value, s), st.value)
            if n is not None and norm(st.annotation) == 'int':
                s.ints.add(n)
            return s
        if isinstance(st, ast.AugAssign):
            self._calls_effects(st.value, s)
            n = self.varname(st.target)
            if n is not None:
                e = ast.BinOp(left=st.target, op=st.op, right=st.value)
                self.assign(s, n, self.eval(e, s))
            return s
        if isinstance(st, ast.Expr):
            self._calls_effects(st.value, s)
            return s
        if isinstance(st, ast.Delete):
            for t in st.targets:
                self._havoc_target(s, t)
            return s
        return s

    def bind(self, target, s: Zone, source=None):
        if target is not None:
            self._havoc_target(s, target)
            if isinstance(source, ast.Call) and dotted(source.func) == 'range' \
                    and isinstance(target, ast.Name):
                s.ints.add(target.id)
                if len(source.args) == 1:
                    s.add(ZERO, target.id, 0)
                    hi = self.eval(source.args[0], s)
                    if hi.base is not None:
                        s.add(target.id, hi.base, hi.hi - 1)
                    else:
                        s.add(target.id, ZERO, hi.hi - 1)
        return s

    # ---- refinement ------------------------------------------------------
    def assume(self, test: ast.AST, s: Zone, truth: bool):
        if s is None:
            return None
        if isinstance(test, ast.Name) and f'bool:{test.id}' in s.aux:
            return self.assume(s.aux[f'bool:{test.id}'][0], s, truth)
        if isinstance(test, ast.UnaryOp) and isinstance(test.op, ast.Not):
            return self.assume(test.operand, s, not truth)
        if isinstance(test, ast.BoolOp):
            is_and = isinstance(test.op, ast.And)
            if is_and == truth:
                # all operands have the given truth
                for v in test.values:
                    s = self.assume(v, s, truth)
                    if s is None:
                        return None
                return s
            # disjunction of cases
            outs = []
            prefix = s
            for v in test.values:
                if prefix is None:
                    break
                outs.append(self.assume(v, prefix.copy(), truth))
                prefix = self.assume(v, prefix, not truth)
            out = None
            for o in outs:
                if o is None:
                    continue
                out = o if out is None else out.join(o)
            return out
        if isinstance(test, ast.Compare) and len(test.ops) == 1 \
                and isinstance(test.ops[0], (ast.Is, ast.IsNot)) \
                and isinstance(test.comparators[0], ast.Constant) and test.comparators[0].value is None:
            x = self.varname(test.left)
            if x is None:
                return s
            want_none = isinstance(test.ops[0], ast.Is) == truth
            if want_none:
                if f'some:{x}' in s.facts:
                    return None
                s.facts.add(f'none:{x}')
            else:
                if f'none:{x}' in s.facts:
                    return None
                s.facts.add(f'some:{x}')
            return s
        if isinstance(test, ast.Compare) and len(test.ops) == 1:
            op = test.ops[0]
            l, r = test.left, test.comparators[0]
            if not truth:
                neg = {ast.Lt: ast.GtE, ast.LtE: ast.Gt, ast.Gt: ast.LtE, ast.GtE: ast.Lt,
                       ast.Eq: ast.NotEq, ast.NotEq: ast.Eq}
                t = neg.get(type(op))
                if t is None:
                    return s
                op = t()
            a = self.eval(l, s)
            b = self.eval(r, s)
            if isinstance(op, ast.NotEq):
                return s
            both_int = a.isint and b.isint
            if isinstance(op, (ast.Lt, ast.LtE)):
                self._le(s, a, b, strict=isinstance(op, ast.Lt), both_int=both_int)
            elif isinstance(op, (ast.Gt, ast.GtE)):
                self._le(s, b, a, strict=isinstance(op, ast.Gt), both_int=both_int)
            elif isinstance(op, ast.Eq):
                if self._numeric(a, s) or self._numeric(b, s):
                    self._le(s, a, b, False, both_int)
                    self._le(s, b, a, False, both_int)
            if not s.close():
                return None
            return s
        if isinstance(test, ast.Compare) and len(test.ops) == 2:
            # a <= b < c
            first = ast.Compare(left=test.left, ops=[test.ops[0]],
                                comparators=[test.comparators[0]])
            second = ast.Compare(left=test.comparators[0], ops=[test.ops[1]],
                                 comparators=[test.comparators[1]])
            return self.assume(ast.BoolOp(op=ast.And(), values=[first, second]), s, truth)
        return s

    def assume_split(self, test: ast.AST, s: Zone, truth: bool) -> list:
        """like assume, but a disjunction yields one state per disjunct"""
        if isinstance(test, ast.UnaryOp) and isinstance(test.op, ast.Not):
            return self.assume_split(test.operand, s, not truth)
        if isinstance(test, ast.Name) and f'bool:{test.id}' in s.aux:
            return self.assume_split(s.aux[f'bool:{test.id}'][0], s, truth)
        if isinstance(test, ast.BoolOp):
            is_and = isinstance(test.op, ast.And)
            if is_and == truth:
                states = [s]
                for v in test.values:
                    nxt = []
                    for x in states:
                        nxt.extend(self.assume_split(v, x, truth))
                    states = nxt
                return states
            outs = []
            prefix = s
            for v in test.values:
                if prefix is None:
                    break
                outs.extend(self.assume_split(v, prefix.copy(), truth))
                prefix = self.assume(v, prefix, not truth)
            return [o for o in outs if o is not None]
        r = self.assume(test, s, truth)
        return [r] if r is not None else []

    def _numeric(self, v: AVal, s: Zone) -> bool:
        lo, hi = self.interval(v, s)
        return v.base is not None and (v.base in s.ints) or lo > -INF or hi < INF

    def _le(self, s: Zone, a: AVal, b: AVal, strict: bool, both_int: bool) -> None:
        """record a <= b (or a < b)"""
        adj = -1 if (strict and both_int) else 0
        if a.base is not None and b.base is not None:
            # a.base + a.lo <= b.base + b.hi
            s.add(a.base, b.base, b.hi - a.lo + adj)
        elif a.base is not None:
            _, bhi = b.lo, b.hi
            s.add(a.base, ZERO, bhi - a.lo + adj)
        elif b.base is not None:
            s.add(ZERO, b.base, b.hi - a.lo + adj)
        else:
            if a.lo > b.hi or (strict and both_int and a.lo >= b.hi and a.lo == a.hi
                               and b.lo == b.hi):
                s.bottom = True
        s.close()


def proves_le(dom: ZoneDomain, s: Zone, a: ast.AST | AVal, b: ast.AST | AVal) -> bool:
    """Is a <= b implied by s?"""
    av = a if isinstance(a, AVal) else dom.eval(a, s)
    bv = b if isinstance(b, AVal) else dom.eval(b, s)
    s.close()
    if av.base is not None and bv.base is not None:
        d = s.upper_diff(av.base, bv.base)
        if d + av.hi - bv.lo <= 0:
            return True
    alo, ahi = dom.interval(av, s)
    blo, bhi = dom.interval(bv, s)
    return ahi <= blo

#!/bin/sh
# usage: tools/eval_refactor.sh <name>   (refactor*.diff in /tmp/wt-out/<name>): behaviour-preserving
# refactorings written by a sub-agent; every check must stay quiet on each of them.
NAME=$1; OUT=/tmp/wt-out/$NAME
PROPS=$(/venv/bin/python -c "import json;print(' '.join(c['property_id'] for c in json.load(open('/verif/MANIFEST.json'))['checks']))")
for f in $OUT/refactor*.diff; do
  echo "=== $NAME $(basename $f)"
  WT=/tmp/ev/$NAME; mkdir -p /tmp/ev
  git -C /repo worktree add -q --detach $WT HEAD || exit 2
  (cd $WT && (git apply $f 2>/dev/null) && /venv/bin/python -m pytest -q -p no:cacheprovider --timeout=900 --continue-on-collection-errors 2>&1 | tail -1) || echo "PATCH DOES NOT APPLY (worktree)"
  git -C /repo worktree remove --force $WT
  git -C /repo apply $f 2>/dev/null || { echo "PATCH DOES NOT APPLY TO /repo"; git -C /repo reset -q --hard HEAD; continue; }
  cd /verif
  for p in $PROPS; do
    out=$(./check $p --tier quick 2>&1); code=$?
    if [ $code -ne 0 ]; then echo "[$p exit=$code]"; echo "$out" | grep -E "VIOLATION|^  R|ANALYSIS-ERROR" | cut -c1-360 | head -6; fi
  done
  git -C /repo reset -q --hard HEAD; git -C /repo status --short | head -3
done

"""E1 repo index + E2 call graph for dash-live.

Index      : modules, classes (bases/MRO), functions, import-alias resolution,
             module-level proxies (`current_stream = cast(Stream, LocalProxy(..))`).
CallGraph  : resolved callees per function (CHA for self./cls., typed locals,
             proxies, unique-method-name fallback), with the list of unresolved
             call expressions kept for the evidence.
Routes     : the Flask route table read from the dict literals in routes.py,
             resolved to handler classes and verb methods along the MRO.
"""
from __future__ import annotations

import ast
from dataclasses import dataclass, field
from typing import Iterable

from .core import AnalysisError, Repo, dotted, norm

GENERIC_NAMES = {
    'get', 'add', 'delete', 'update', 'read', 'write', 'all', 'count', 'search', 'items',
    'keys', 'values', 'append', 'extend', 'insert', 'remove', 'pop', 'copy', 'clone', 'close',
    'open', 'seek', 'tell', 'encode', 'decode', 'parse', 'load', 'save', 'format', 'join',
    'split', 'strip', 'lower', 'upper', 'replace', 'startswith', 'endswith', 'sort', 'index',
    'find', 'toJSON', 'to_dict', 'commit', 'flush', 'rollback', 'execute', 'scalar', 'first',
    'one', 'filter', 'filter_by', 'where', 'order_by', 'group_by', 'query', 'render', 'send',
    'emit', 'debug', 'info', 'warning', 'error', 'exception', 'validate', 'check', 'run',
    'start', 'stop', 'create', 'build', 'generate', 'name', 'title', 'setdefault', 'clear',
    'discard', 'union', 'match', 'group', 'sub', 'compile', 'finditer', 'fromJSON', 'apply',
    'call', 'done', 'duplicate', 'post', 'put', 'head', 'patch', 'exists', 'mkdir', 'unlink',
    'is_valid', 'get_one', 'populate_if_empty', 'prune_database', 'from_string', 'to_string',
    'peek', 'readall', 'getvalue', 'total_seconds', 'timestamp', 'isoformat', 'total',
}


@dataclass
class FuncInfo:
    qual: str
    rel: str
    node: ast.FunctionDef | ast.AsyncFunctionDef
    cls: 'ClassInfo | None' = None
    module: 'ModuleInfo | None' = None

    @property
    def name(self) -> str:
        return self.node.name

    def construct(self) -> str:
        inner = self.qual[len(self.module.name) + 1:] if self.module else self.qual
        return f'{self.rel}::{inner}'

    def decorators(self) -> list[str]:
        return [norm(d) for d in self.node.decorator_list]


@dataclass
class ClassInfo:
    qual: str
    rel: str
    node: ast.ClassDef
    module: 'ModuleInfo'
    base_exprs: list[str] = field(default_factory=list)
    bases: list['ClassInfo'] = field(default_factory=list)
    ext_bases: list[str] = field(default_factory=list)
    methods: dict[str, FuncInfo] = field(default_factory=dict)
    attrs: dict[str, ast.AST] = field(default_factory=dict)

    @property
    def name(self) -> str:
        return self.node.name


@dataclass
class ModuleInfo:
    name: str
    rel: str
    tree: ast.Module
    is_pkg: bool
    imports: dict[str, str] = field(default_factory=dict)     # local name -> qualified
    functions: dict[str, FuncInfo] = field(default_factory=dict)
    classes: dict[str, ClassInfo] = field(default_factory=dict)
    assigns: dict[str, ast.AST] = field(default_factory=dict)  # module-level NAME = value
    proxies: dict[str, str] = field(default_factory=dict)      # NAME -> class qual (cast(T, ..))


class Index:
    def _nf(self, node):
        """function node in normal form (sa/normalise.py)"""
        try:
            return self.repo.normaliser.expand(node)
        except Exception:
            return node

    def __init__(self, repo: Repo, sub: str = 'dashlive') -> None:
        self.repo = repo
        self.modules: dict[str, ModuleInfo] = {}
        self.by_rel: dict[str, ModuleInfo] = {}
        self.classes: dict[str, ClassInfo] = {}
        self.functions: dict[str, FuncInfo] = {}
        self.methods_by_name: dict[str, list[FuncInfo]] = {}
        for rel in repo.py_files(sub):
            self._load(rel)
        for m in self.modules.values():
            self._resolve_module(m)
        for c in self.classes.values():
            self._resolve_bases(c)
        self._subclasses: dict[str, list[ClassInfo]] = {}
        for c in self.classes.values():
            for b in c.bases:
                self._subclasses.setdefault(b.qual, []).append(c)
        for m in self.modules.values():
            self._find_proxies(m)
        self.absorbed: set[str] = self._absorbed()

    def _absorbed(self) -> set[str]:
        """helpers that are new relative to the baseline inventory and were inlined into every caller
        (no call by that name is left in any normal form): their statements are read in the callers,
        so they are not sites of their own"""
        nz = self.repo.normaliser
        inlined = {x.split('::', 1)[1].split(' -> ')[0] for x in nz.inlined}
        if not inlined:
            return set()
        cands = {}
        for q, f in self.functions.items():
            local = (f.cls.qual.rsplit('.', 1)[-1] + '.' if f.cls is not None else '') + f.node.name
            if f.node.name in inlined and nz.is_new(f.rel, local):
                cands[q] = f
        if not cands:
            return set()
        called: set[str] = set()
        for q, f in self.functions.items():
            for n in ast.walk(f.node):
                if isinstance(n, ast.Call):
                    fn = n.func
                    nm = fn.attr if isinstance(fn, ast.Attribute) else (fn.id if isinstance(fn, ast.Name) else None)
                    if nm and not (q in cands and nm == f.node.name):
                        called.add(nm)
                elif isinstance(n, ast.Attribute) and not isinstance(getattr(n, '_parent', None), ast.Call):
                    called.add(n.attr)              # method value passed around
        return {q for q, f in cands.items() if f.node.name not in called}

    # ---- loading ---------------------------------------------------------
    def _load(self, rel: str) -> None:
        tree = self.repo.tree(rel)
        parts = rel[:-3].split('/')
        is_pkg = parts[-1] == '__init__'
        if is_pkg:
            parts = parts[:-1]
        name = '.'.join(parts)
        m = ModuleInfo(name, rel, tree, is_pkg)
        self.modules[name] = m
        self.by_rel[rel] = m
        for n in tree.body:
            self._load_stmt(m, n)

    def _load_stmt(self, m: ModuleInfo, n: ast.stmt) -> None:
        if isinstance(n, (ast.FunctionDef, ast.AsyncFunctionDef)):
            f = FuncInfo(f'{m.name}.{n.name}', m.rel, self._nf(n), None, m)
            m.functions[n.name] = f
            self.functions[f.qual] = f
        elif isinstance(n, ast.ClassDef):
            c = ClassInfo(f'{m.name}.{n.name}', m.rel, n, m,
                          base_exprs=[norm(b) for b in n.bases])
            m.classes[n.name] = c
            self.classes[c.qual] = c
            for b in n.body:
                if isinstance(b, (ast.FunctionDef, ast.AsyncFunctionDef)):
                    f = FuncInfo(f'{c.qual}.{b.name}', m.rel, self._nf(b), c, m)
                    c.methods[b.name] = f
                    self.functions[f.qual] = f
                    self.methods_by_name.setdefault(b.name, []).append(f)
                elif isinstance(b, ast.Assign):
                    for t in b.targets:
                        if isinstance(t, ast.Name):
                            c.attrs[t.id] = b.value
                elif isinstance(b, ast.AnnAssign) and isinstance(b.target, ast.Name):
                    c.attrs[b.target.id] = b.value if b.value is not None else b.annotation
        elif isinstance(n, ast.Assign):
            for t in n.targets:
                if isinstance(t, ast.Name):
                    m.assigns[t.id] = n.value
        elif isinstance(n, ast.AnnAssign) and isinstance(n.target, ast.Name) and n.value is not None:
            m.assigns[n.target.id] = n.value
        elif isinstance(n, (ast.If, ast.Try)):
            for b in ast.iter_child_nodes(n):
                if isinstance(b, ast.stmt):
                    self._load_stmt(m, b)

    def _resolve_module(self, m: ModuleInfo) -> None:
        pkg = m.name if m.is_pkg else m.name.rsplit('.', 1)[0] if '.' in m.name else ''
        for n in ast.walk(m.tree):
            if isinstance(n, ast.Import):
                for a in n.names:
                    if a.asname:
                        m.imports[a.asname] = a.name
                    else:
                        m.imports[a.name.split('.')[0]] = a.name.split('.')[0]
            elif isinstance(n, ast.ImportFrom):
                base = n.module or ''
                if n.level:
                    up = pkg.split('.') if pkg else []
                    if n.level > 1:
                        up = up[:len(up) - (n.level - 1)]
                    base = '.'.join(up + ([n.module] if n.module else []))
                for a in n.names:
                    m.imports[a.asname or a.name] = f'{base}.{a.name}' if base else a.name

    def _resolve_bases(self, c: ClassInfo) -> None:
        for b in c.node.bases:
            q = self.resolve_expr(c.module, b)
            if q and q in self.classes:
                c.bases.append(self.classes[q])
            else:
                c.ext_bases.append(q or norm(b))

    def _find_proxies(self, m: ModuleInfo) -> None:
        for name, val in m.assigns.items():
            if isinstance(val, ast.Call) and dotted(val.func) in ('cast', 'typing.cast') \
                    and len(val.args) == 2:
                q = self.resolve_expr(m, val.args[0])
                if q in self.classes:
                    m.proxies[name] = q

    # ---- name resolution ---------------------------------------------------
    def canonical(self, qual: str, depth: int = 0) -> str:
        """follow re-exports: dashlive.server.models.Stream -> ...models.stream.Stream"""
        if depth > 8:
            return qual
        if qual in self.classes or qual in self.functions or qual in self.modules:
            return qual
        if '.' not in qual:
            return qual
        head, tail = qual.rsplit('.', 1)
        head = self.canonical(head, depth + 1)
        mod = self.modules.get(head)
        if mod is not None:
            if tail in mod.classes:
                return mod.classes[tail].qual
            if tail in mod.functions:
                return mod.functions[tail].qual
            if tail in mod.imports:
                return self.canonical(mod.imports[tail], depth + 1)
            if f'{head}.{tail}' in self.modules:
                return f'{head}.{tail}'
        cls = self.classes.get(head)
        if cls is not None:
            f = self.find_method(cls, tail)
            if f is not None:
                return f.qual
        return f'{head}.{tail}'

    def resolve_name(self, m: ModuleInfo, name: str) -> str | None:
        if name in m.classes:
            return m.classes[name].qual
        if name in m.functions:
            return m.functions[name].qual
        if name in m.imports:
            return self.canonical(m.imports[name])
        return None

    def resolve_expr(self, m: ModuleInfo, e: ast.AST) -> str | None:
        d = dotted(e)
        if d is None:
            if isinstance(e, ast.Subscript):
                return self.resolve_expr(m, e.value)
            if isinstance(e, ast.BinOp) and isinstance(e.op, ast.BitOr):
                # X | None
                for side in (e.left, e.right):
                    if not (isinstance(side, ast.Constant) and side.value is None):
                        r = self.resolve_expr(m, side)
                        if r:
                            return r
            if isinstance(e, ast.Constant) and isinstance(e.value, str):
                try:
                    return self.resolve_expr(m, ast.parse(e.value, mode='eval').body)
                except SyntaxError:
                    return None
            return None
        parts = d.split('.')
        head = self.resolve_name(m, parts[0])
        if head is None:
            return None
        if len(parts) == 1:
            return head
        return self.canonical(head + '.' + '.'.join(parts[1:]))

    # ---- classes -------------------------------------------------------
    def mro(self, c: ClassInfo) -> list[ClassInfo]:
        out: list[ClassInfo] = []
        seen: set[str] = set()

        def visit(k: ClassInfo) -> None:
            if k.qual in seen:
                return
            seen.add(k.qual)
            out.append(k)
            for b in k.bases:
                visit(b)
        visit(c)
        return out

    def find_method(self, c: ClassInfo, name: str) -> FuncInfo | None:
        for k in self.mro(c):
            if name in k.methods:
                return k.methods[name]
        return None

    def find_attr(self, c: ClassInfo, name: str) -> tuple[ClassInfo, ast.AST] | None:
        for k in self.mro(c):
            if name in k.attrs:
                return k, k.attrs[name]
        return None

    def subclasses(self, c: ClassInfo, transitive: bool = True) -> list[ClassInfo]:
        out: list[ClassInfo] = []
        stack = list(self._subclasses.get(c.qual, []))
        seen = set()
        while stack:
            k = stack.pop()
            if k.qual in seen:
                continue
            seen.add(k.qual)
            out.append(k)
            if transitive:
                stack.extend(self._subclasses.get(k.qual, []))
        return out

    def is_subclass(self, c: ClassInfo, qual: str) -> bool:
        return any(k.qual == qual for k in self.mro(c))

    def ext_base_names(self, c: ClassInfo) -> set[str]:
        out: set[str] = set()
        for k in self.mro(c):
            out |= set(k.ext_bases)
        return out


# --------------------------------------------------------------------------
# call graph
# --------------------------------------------------------------------------
@dataclass
class CallSite:
    caller: FuncInfo
    node: ast.Call
    callees: list[FuncInfo]
    how: str           # 'direct' | 'self' | 'typed' | 'proxy' | 'by-name' | 'super' | 'class'
    text: str


class CallGraph:
    def __init__(self, idx: Index) -> None:
        self.idx = idx
        self.sites: dict[str, list[CallSite]] = {}
        self.unresolved: dict[str, list[str]] = {}
        self.n_calls = 0
        self.n_resolved = 0
        self.n_external = 0
        self._local_types: dict[str, dict[str, str]] = {}

    # ---- local type inference -------------------------------------------
    def local_types(self, f: FuncInfo) -> dict[str, str]:
        if f.qual in self._local_types:
            return self._local_types[f.qual]
        idx, m = self.idx, f.module
        types: dict[str, str] = {}
        self._local_types[f.qual] = types      # partial result breaks recursion
        args = f.node.args
        for a in args.posonlyargs + args.args + args.kwonlyargs:
            if a.annotation is not None:
                q = idx.resolve_expr(m, a.annotation)
                if q in idx.classes:
                    types[a.arg] = q
        for n in ast.walk(f.node):
            tgt = val = None
            if isinstance(n, ast.Assign) and len(n.targets) == 1 and isinstance(n.targets[0], ast.Name):
                tgt, val = n.targets[0].id, n.value
            elif isinstance(n, ast.AnnAssign) and isinstance(n.target, ast.Name):
                q = idx.resolve_expr(m, n.annotation)
                if q in idx.classes:
                    types[n.target.id] = q
                continue
            elif isinstance(n, (ast.For, ast.comprehension)) and isinstance(n.target, ast.Name):
                it = n.iter
                if isinstance(it, ast.Attribute):
                    rq, _ = self.receiver_class(f, it.value)
                    if rq is not None:
                        et = self.attr_elem_type(idx.classes[rq], it.attr)
                        if et:
                            types.setdefault(n.target.id, et)
                elif isinstance(it, ast.Call) and isinstance(it.func, ast.Attribute) \
                        and it.func.attr in ('all', 'search'):
                    rq = idx.resolve_expr(m, it.func.value)
                    if rq in idx.classes:
                        types.setdefault(n.target.id, rq)
                continue
            elif isinstance(n, (ast.With, ast.AsyncWith)):
                continue
            if tgt is None or tgt in types:
                continue
            if isinstance(val, ast.Name) and val.id != tgt:
                rq, _ = self.receiver_class(f, val)
                if rq is not None:
                    types[tgt] = rq
                continue
            if isinstance(val, ast.Attribute):
                rq, _ = self.receiver_class(f, val.value)
                if rq is not None:
                    et = self.attr_elem_type(idx.classes[rq], val.attr)
                    if et:
                        types[tgt] = et
                continue
            if isinstance(val, ast.Call):
                q = idx.resolve_expr(m, val.func)
                if q in idx.classes:
                    types[tgt] = q
                elif q in idx.functions:
                    fn = idx.functions[q]
                    # Cls.get(...) classmethods return an instance of Cls by convention
                    if fn.cls is not None and isinstance(val.func, ast.Attribute):
                        recv = idx.resolve_expr(m, val.func.value)
                        if recv in idx.classes and fn.name in (
                                'get', 'get_one', 'get_by_hkid', 'get_guest_user', 'create',
                                'from_string', 'fromJSON', 'clone', 'get_member'):
                            types[tgt] = recv
                    if fn.node.returns is not None and tgt not in types:
                        rq = idx.resolve_expr(fn.module, fn.node.returns)
                        if rq in idx.classes:
                            types[tgt] = rq
                # cast(T, x)
                if dotted(val.func) in ('cast', 'typing.cast') and len(val.args) == 2:
                    q2 = idx.resolve_expr(m, val.args[0])
                    if q2 in idx.classes:
                        types[tgt] = q2
        self._local_types[f.qual] = types
        return types

    def attr_elem_type(self, c: ClassInfo, attr: str) -> str | None:
        """class named inside the annotation of a class attribute (Mapped[list["X"]])"""
        import re as _re
        for k in self.idx.mro(c):
            for b in k.node.body:
                if isinstance(b, ast.AnnAssign) and isinstance(b.target, ast.Name) \
                        and b.target.id == attr:
                    for nm in _re.findall(r'[A-Za-z_][A-Za-z0-9_]*', norm(b.annotation)):
                        q = self.idx.resolve_name(k.module, nm)
                        if q in self.idx.classes and nm not in ('Mapped', 'Optional'):
                            return q
                        # same package models referenced by string
                        for cq, ci in self.idx.classes.items():
                            if ci.name == nm and ci.module.name.startswith('dashlive.server.models'):
                                return cq
        return None

    def receiver_class(self, f: FuncInfo, recv: ast.AST,
                       self_cls: ClassInfo | None = None) -> tuple[str | None, str]:
        idx, m = self.idx, f.module
        if isinstance(recv, ast.Name):
            if recv.id in ('self', 'cls') and f.cls is not None:
                if self_cls is not None and idx.is_subclass(self_cls, f.cls.qual):
                    return self_cls.qual, 'self-exact'
                return f.cls.qual, 'self'
            lt = self.local_types(f)
            if recv.id in lt:
                return lt[recv.id], 'typed'
            if recv.id in m.proxies:
                return m.proxies[recv.id], 'proxy'
            q = m.imports.get(recv.id)
            if q in ('flask_login.current_user', 'flask_jwt_extended.current_user'):
                # both user loaders in app.py return models.User
                return 'dashlive.server.models.user.User', 'proxy'
            if q:
                cq = idx.canonical(q)
                if cq in idx.classes:
                    return cq, 'class'
                # imported proxy
                if '.' in q:
                    mod, nm = q.rsplit('.', 1)
                    mod = idx.canonical(mod)
                    mi = idx.modules.get(mod)
                    if mi and nm in mi.proxies:
                        return mi.proxies[nm], 'proxy'
            if recv.id in m.classes:
                return m.classes[recv.id].qual, 'class'
            return None, ''
        d = dotted(recv)
        if d is not None:
            q = idx.resolve_expr(m, recv)
            if q in idx.classes:
                return q, 'class'
            # self.attr typed by annotation in class body
            parts = d.split('.')
            if parts[0] == 'self' and len(parts) == 2 and f.cls is not None:
                fa = idx.find_attr(f.cls, parts[1])
                if fa is not None:
                    k, ann = fa
                    qq = idx.resolve_expr(k.module, ann)
                    if qq in idx.classes:
                        return qq, 'typed'
        if isinstance(recv, ast.Call):
            q = idx.resolve_expr(m, recv.func)
            if q in idx.classes:
                return q, 'typed'
            if dotted(recv.func) == 'super' and f.cls is not None:
                return f.cls.qual, 'super'
        return None, ''

    def resolve_call(self, f: FuncInfo, call: ast.Call,
                     self_cls: ClassInfo | None = None) -> tuple[list[FuncInfo], str]:
        idx, m = self.idx, f.module
        fn = call.func
        if isinstance(fn, ast.Name):
            # nested def?
            for n in ast.walk(f.node):
                if isinstance(n, (ast.FunctionDef, ast.AsyncFunctionDef)) and n is not f.node \
                        and n.name == fn.id:
                    nf = FuncInfo(f'{f.qual}.<locals>.{n.name}', f.rel, n, f.cls, m)
                    return [nf], 'direct'
            q = idx.resolve_name(m, fn.id)
            if q in idx.functions:
                return [idx.functions[q]], 'direct'
            if q in idx.classes:
                c = idx.classes[q]
                out = []
                for nm in ('__init__', '__post_init__'):
                    mm = idx.find_method(c, nm)
                    if mm:
                        out.append(mm)
                return out, 'class'
            return [], ''
        if isinstance(fn, ast.Attribute):
            name = fn.attr
            cq, how = self.receiver_class(f, fn.value, self_cls)
            if cq is not None:
                c = idx.classes[cq]
                if how == 'self-exact':
                    mm = idx.find_method(c, name)
                    return ([mm] if mm else []), 'self'
                if how == 'super':
                    for k in idx.mro(c)[1:]:
                        if name in k.methods:
                            return [k.methods[name]], 'super'
                    return [], 'super'
                out: list[FuncInfo] = []
                mm = idx.find_method(c, name)
                if mm:
                    out.append(mm)
                if how in ('self', 'typed', 'proxy'):
                    for sc in idx.subclasses(c):
                        if name in sc.methods and sc.methods[name] not in out:
                            out.append(sc.methods[name])
                if out:
                    return out, how
                return [], how
            q = idx.resolve_expr(m, fn)
            if q in idx.functions:
                return [idx.functions[q]], 'direct'
            if q in idx.classes:
                c = idx.classes[q]
                mm = idx.find_method(c, '__init__')
                return ([mm] if mm else []), 'class'
            # unique method name fallback
            if name not in GENERIC_NAMES and not name.startswith('__'):
                cands = idx.methods_by_name.get(name, [])
                if 1 <= len(cands) <= 3:
                    return list(cands), 'by-name'
        return [], ''

    def callsites(self, f: FuncInfo, self_cls: ClassInfo | None = None) -> list[CallSite]:
        if self_cls is not None and f.cls is not None \
                and self.idx.is_subclass(self_cls, f.cls.qual):
            out2: list[CallSite] = []
            for n in self._walk_own(f.node):
                if isinstance(n, ast.Call):
                    callees, how = self.resolve_call(f, n, self_cls)
                    if callees:
                        out2.append(CallSite(f, n, callees, how, norm(n.func)))
            return out2
        if f.qual in self.sites:
            return self.sites[f.qual]
        out: list[CallSite] = []
        unresolved: list[str] = []
        for n in self._walk_own(f.node):
            if not isinstance(n, ast.Call):
                continue
            self.n_calls += 1
            callees, how = self.resolve_call(f, n)
            if callees:
                self.n_resolved += 1
                out.append(CallSite(f, n, callees, how, norm(n.func)))
            else:
                unresolved.append(norm(n.func))
        self.sites[f.qual] = out
        self.unresolved[f.qual] = unresolved
        return out

    @staticmethod
    def _walk_own(fn: ast.AST) -> Iterable[ast.AST]:
        """walk a function body including nested defs/lambdas (they run in its context)"""
        return ast.walk(fn)

    def reachable(self, roots: list[FuncInfo], stop: set[str] | None = None,
                  max_nodes: int = 5000, self_cls: ClassInfo | None = None,
                  skip_how: tuple[str, ...] = ()) -> dict[str, tuple[FuncInfo, str | None]]:
        """BFS; returns qual -> (func, predecessor qual)"""
        seen: dict[str, tuple[FuncInfo, str | None]] = {}
        queue: list[tuple[FuncInfo, str | None]] = [(r, None) for r in roots]
        while queue:
            f, pred = queue.pop(0)
            if f.qual in seen:
                continue
            seen[f.qual] = (f, pred)
            if stop and f.qual in stop:
                continue
            if len(seen) > max_nodes:
                raise AnalysisError('call graph exploded')
            for cs in self.callsites(f, self_cls):
                if cs.how in skip_how:
                    continue
                for c in cs.callees:
                    if c.qual not in seen:
                        queue.append((c, f.qual))
        return seen

    def path_to(self, reach: dict[str, tuple[FuncInfo, str | None]], qual: str) -> list[str]:
        out = []
        cur: str | None = qual
        while cur is not None:
            out.append(cur)
            cur = reach[cur][1]
        return list(reversed(out))


# --------------------------------------------------------------------------
# routes
# --------------------------------------------------------------------------
ROUTES = 'dashlive/server/routes.py'
VERBS = ('get', 'head', 'post', 'put', 'delete', 'patch', 'options')


@dataclass
class RouteEntry:
    name: str
    template: str
    handler: str
    cls: ClassInfo | None
    func: FuncInfo | None     # plain view function (favicon)
    ui: bool = False


def _const_str(e: ast.AST) -> str | None:
    if isinstance(e, ast.Constant) and isinstance(e.value, str):
        return e.value
    if isinstance(e, ast.BinOp) and isinstance(e.op, ast.Add):
        a, b = _const_str(e.left), _const_str(e.right)
        if a is not None and b is not None:
            return a + b
    return None


def read_routes(idx: Index) -> list[RouteEntry]:
    m = idx.by_rel.get(ROUTES)
    if m is None:
        raise AnalysisError('routes.py missing')
    out: list[RouteEntry] = []
    ui_handler = None
    ui_cls = m.classes.get('UiRoute')
    if ui_cls and '__init__' in ui_cls.methods:
        for n in ast.walk(ui_cls.methods['__init__'].node):
            if isinstance(n, ast.keyword) and n.arg == 'handler':
                ui_handler = _const_str(n.value)
    for var, ui in (('routes', False), ('ui_routes', True)):
        val = m.assigns.get(var)
        if not isinstance(val, ast.Dict):
            raise AnalysisError(f'routes.py: `{var}` is not a dict literal')
        for k, v in zip(val.keys, val.values):
            name = _const_str(k)
            if name is None or not isinstance(v, ast.Call):
                raise AnalysisError(f'routes.py: non-literal entry in `{var}`')
            template = _const_str(v.args[0]) if v.args else None
            handler = None
            for kw in v.keywords:
                if kw.arg == 'handler':
                    handler = _const_str(kw.value)
                if kw.arg == 'template':
                    template = _const_str(kw.value)
            if len(v.args) > 1 and handler is None:
                handler = _const_str(v.args[1])
            if ui and handler is None:
                handler = ui_handler
            if template is None or handler is None:
                raise AnalysisError(f'routes.py: cannot read route {name}')
            q = f'dashlive.server.requesthandler.{handler}'
            cq = idx.canonical(q)
            cls = idx.classes.get(cq)
            func = idx.functions.get(cq) if cls is None else None
            if cls is None and func is None:
                raise AnalysisError(f'route {name}: handler {handler} does not resolve')
            out.append(RouteEntry(('ui-' if ui else '') + name, template, handler, cls, func, ui))
    return out


def verb_methods(idx: Index, cls: ClassInfo) -> dict[str, FuncInfo]:
    out: dict[str, FuncInfo] = {}
    for v in VERBS:
        f = idx.find_method(cls, v)
        if f is not None:
            out[v] = f
    if 'get' in out and 'head' not in out:
        out['head'] = out['get']      # Flask MethodView falls back to get for HEAD
    return out


def class_decorators(idx: Index, cls: ClassInfo) -> tuple[list[ast.AST], ClassInfo | None]:
    """the effective `decorators` list (nearest definition along the MRO)"""
    fa = idx.find_attr(cls, 'decorators')
    if fa is None:
        return [], None
    owner, val = fa
    if isinstance(val, (ast.List, ast.Tuple)):
        return list(val.elts), owner
    raise AnalysisError(f'{owner.qual}.decorators is not a list literal')

"""Catalogue of self-validation variants (thorough tier), per property.

Each breaking variant re-creates one realistic regression (several are the
defects that were found and repaired on this tree) as an in-memory edit; each
neutral variant is a behaviour-preserving rewrite that must not be reported.
"""
from __future__ import annotations

from .selftest import Variant as V

RH = 'dashlive/server/requesthandler'
MP4 = 'dashlive/mpeg/mp4.py'
DT = 'dashlive/utils/date_time.py'
BR = 'dashlive/utils/buffered_reader.py'

VARIANTS: dict[str, list[V]] = {}

# ---------------------------------------------------------------- C19
VARIANTS['C19'] = [
    V('no carry when the fraction rounds to 1000 ms',
      [(DT, "    if milli_secs >= 1000:\n", "    if milli_secs >= 2000:\n")], 'R19.1', 'toIsoDuration'),
    V('minutes field not reduced modulo 60',
      [(DT, "    mins = secs // 60\n", "    mins = secs // 30\n")], 'R19.1', 'toIsoDuration'),
    V('microseconds from a truncated scaled float',
      [(DT, "kwargs['microsecond'] = int(frac[:6].ljust(6, '0'), 10)",
        "kwargs['microsecond'] = int(1000000.0 * float('0.' + frac))")], 'R19.2', 'from_isodatetime'),
    V('any offset rewritten to Z',
      [(DT, "rv = re.sub('[+-]00:00$', 'Z', rv)", "rv = re.sub('[+-][0-9]{2}:00$', 'Z', rv)")],
      'R19.3', 'to_iso_datetime'),
    V('offset regex not anchored',
      [(DT, "rv = re.sub('[+-]00:00$', 'Z', rv)", "rv = re.sub('[+-]00:00', 'Z', rv)")],
      'R19.3', 'to_iso_datetime'),
    V('sign of the offset ignored',
      [('dashlive/utils/timezone.py', "            offset = -offset\n", "            offset = offset\n")],
      'R19.3', 'FixedOffsetTimeZone'),
    V('isoDuration filter bypasses the library formatter',
      [('dashlive/server/template_tags.py', "    return toIsoDuration(value)", "    return 'PT%dS' % value")],
      'R19.4', 'isoDuration'),
    V('neutral: carry written with divmod',
      [(DT, "    if milli_secs >= 1000:\n        # rounding carried into the next whole second\n"
            "        milli_secs -= 1000\n        secs += 1\n",
        "    carry, milli_secs = divmod(milli_secs, 1000)\n    secs += carry\n")], None),
    V('neutral: rename local variable',
      [(DT, "    hrs = secs // 3600\n    rv = ['PT']", "    hrs = secs // 3600\n    rv = ['PT']  # parts")], None),
    V('neutral: offset refactored with a sign factor',
      [('dashlive/utils/timezone.py',
        "        offset = int(tz_match.group('hour'), 10) * 60\n        offset += int(tz_match.group('minute'), 10)\n        if tz_match.group('delta') == '-':\n            offset = -offset\n        self.__offset = datetime.timedelta(minutes=offset)",
        "        sign = -1 if tz_match.group('delta') == '-' else 1\n        hours = sign * int(tz_match.group('hour'), 10)\n        minutes = sign * int(tz_match.group('minute'), 10)\n        self.__offset = datetime.timedelta(hours=hours, minutes=minutes)")], None),
    V('sign applied to the hours only',
      [('dashlive/utils/timezone.py',
        "        offset = int(tz_match.group('hour'), 10) * 60\n        offset += int(tz_match.group('minute'), 10)\n        if tz_match.group('delta') == '-':\n            offset = -offset\n        self.__offset = datetime.timedelta(minutes=offset)",
        "        sign = -1 if tz_match.group('delta') == '-' else 1\n        hours = sign * int(tz_match.group('hour'), 10)\n        minutes = int(tz_match.group('minute'), 10)\n        self.__offset = datetime.timedelta(hours=hours, minutes=minutes)")], 'R19.3', 'FixedOffsetTimeZone'),
]

# ---------------------------------------------------------------- C13
B = f'{RH}/base.py'
VARIANTS['C13'] = [
    V('suffix range longer than the resource not clamped',
      [(B, "start = max(0, content_length - amount)", "start = content_length - amount")], 'R13.1', 'get_http_range'),
    V('last-byte-pos not clamped but still 206',
      [(B, "end = min(int(end_str, 10), content_length - 1)", "end = int(end_str, 10)")], 'R13.1', 'get_http_range'),
    V('416 for a satisfiable range',
      [(B, "if start >= content_length or end < start:", "if end >= content_length - 1 or end < start:")],
      'R13.2', 'get_http_range'),
    V('Content-Range built before the clamp',
      [(B, "        status: int = 206\n", "        end = min(end, content_length - 1)\n        status: int = 206\n"),
       (B, "            'Content-Range': f'bytes {start}-{end}/{content_length}'\n        }\n",
        "            'Content-Range': f'bytes {start}-{end}/{content_length}'\n        }\n        start = max(start, 0)\n")],
      'R13.3', 'get_http_range'),
    V('exclusive slice in the segment handler',
      [(f'{RH}/media_requests.py', "data = data[start:end + 1]", "data = data[start:end]")], 'R13.4', 'generate_media_segment'),
    V('on-demand read one byte short',
      [(f'{RH}/media_requests.py', "data = reader.read(1 + end - start)", "data = reader.read(end - start)")],
      'R13.4', 'OnDemandMedia.get'),
    V('range errors no longer mapped to 400',
      [(f'{RH}/media_requests.py', "        except (ValueError) as ve:\n            logging.warning('HTTP range error: %s', ve)",
        "        except (KeyError) as ve:\n            logging.warning('HTTP range error: %s', ve)")], 'R13.4', 'generate_media_segment'),
    V('second reader of the Range header',
      [(f'{RH}/media_requests.py', "        if status == 206:\n            with current_media_file",
        "        if status == 206 and flask.request.headers.get('range'):\n            with current_media_file")],
      'R13.5', 'media_requests'),
    V('neutral: equivalent clamp with a conditional',
      [(B, "start = max(0, content_length - amount)",
        "start = content_length - amount\n            if start < 0:\n                start = 0")], None),
]

# ---------------------------------------------------------------- C20
VARIANTS['C20'] = [
    V('readall ignores the window offset',
      [(BR, "self.reader.seek(self.pos + self.offset)", "self.reader.seek(self.pos)")], 'R20.1', 'readall'),
    V('cache fills from the wrong file position',
      [(BR, "self.reader.seek(bucket + self.offset, io.SEEK_SET)", "self.reader.seek(bucket, io.SEEK_SET)")],
      'R20.1', 'cache'),
    V('size discovery forgets the offset',
      [(BR, "self.size = self.reader.tell() - self.offset", "self.size = self.reader.tell()")], 'R20.1', 'seek'),
    V('peek copies to the end of the bucket',
      [(BR, "data[offset:offset + sz].tobytes()", "data[offset:].tobytes()")], 'R20.2', 'peek'),
    V('read no longer clamps the count',
      [(BR, "            n = min(n, self.size - self.pos)\n            if n <= 0:\n                return b''\n        b = self.peek(n)",
        "            if self.size - self.pos <= 0:\n                return b''\n        b = self.peek(n)")], 'R20.2', 'read'),
    V('readall returns the rest of the file',
      [(BR, "            return self.read(self.size - self.pos)\n", "            pass\n")], 'R20.2', 'readall'),
    V('seek does not clamp to the window size',
      [(BR, "            self.pos = min(self.pos, self.size)\n", "            pass\n")], 'R20.3', 'seek'),
    V('seek allows negative positions',
      [(BR, "        self.pos = max(0, self.pos)\n", "")], 'R20.3', 'seek'),
    V('eviction without counter update',
      [(BR, "                del self.buffers[remove]\n                self.num_buffers -= 1\n",
        "                del self.buffers[remove]\n")], 'R20.4', 'cache'),
    V('misaligned bucket key',
      [(BR, "        bucket *= self.buffersize\n", "        bucket *= self.buffersize\n        bucket += offset if False else 0\n")],
      'R20.4', 'peek'),
    V('window of another segment',
      [(f'{RH}/media_requests.py', "reader, offset=frag.pos, size=frag.size, buffersize=16384)",
        "reader, offset=frag.pos, size=media.blob.size, buffersize=16384)")], 'R20.5', 'load_fragment'),
    V('neutral: comment and blank line',
      [(BR, "    def tell(self):\n", "    def tell(self):\n        # current window-relative position\n")], None),
]

# ---------------------------------------------------------------- C15
ST = f'{RH}/streams.py'
MPS = f'{RH}/multi_period_streams.py'
VARIANTS['C15'] = [
    V('stream defaults editable without the media group',
      [(ST, "    @login_required(permission=models.Group.MEDIA)\n    def post(self, spk: int) -> flask.Response:\n        try:\n            self.check_csrf('streams', flask.request.form)",
        "    def post(self, spk: int) -> flask.Response:\n        try:\n            self.check_csrf('streams', flask.request.form)")],
      'R15.1', 'EditStreamDefaults.post'),
    V('multi-period delete open to any token',
      [(MPS, "    @jwt_login_required(permission=models.Group.MEDIA)\n    @csrf_token_required('streams')\n    def delete(",
        "    @csrf_token_required('streams')\n    def delete(")], 'R15.1', 'EditStream.delete'),
    V('upload handler loses its class decorators',
      [(f'{RH}/media_management.py', "    decorators = [uses_stream, login_required(permission=models.Group.MEDIA)]\n\n    def post(self, spk: int)",
        "    decorators = [uses_stream]\n\n    def post(self, spk: int)")], 'R15.1', 'UploadHandler.post'),
    V('key deletion requires only a login',
      [(f'{RH}/keypairs.py', "    decorators = [uses_keypair, login_required(permission=models.Group.MEDIA)]",
        "    decorators = [uses_keypair, login_required()]")], 'R15.1', 'DeleteKeyHandler'),
    V('admin check dropped from user deletion',
      [(f'{RH}/user_management.py', "    @jwt_login_required(admin=True)\n    def delete(self, upk: int)",
        "    @jwt_login_required()\n    def delete(self, upk: int)")], 'R15.1', 'EditUser.delete'),
    V('self-or-admin guard weakened',
      [(f'{RH}/user_management.py', "        if not jwt_current_user.is_admin and user.pk != jwt_current_user.pk:\n",
        "        if not jwt_current_user.is_authenticated and user.pk != jwt_current_user.pk:\n")],
      'R15.1', 'EditUser.post'),
    V('login_required ignores the permission',
      [(f'{RH}/decorators.py', "            if permission and not current_user.has_permission(permission):\n                return needs_login_response(admin=admin, html=html, permission=permission)\n            return func(*args, **kwargs)",
        "            return func(*args, **kwargs)")], 'R15.0', 'login_required'),
    V('has_permission tests any overlap of bits',
      [('dashlive/server/models/user.py', "        return ((self.groups_mask & group.value) == group.value or\n                self.is_admin)",
        "        return bool(self.groups_mask) or self.is_admin")], 'R15.0', 'has_permission'),
    V('model edited before the CSRF check',
      [(ST, "        context = self.create_context(params['title'], False)\n",
        "        current_stream.title = params['title']\n        context = self.create_context(params['title'], False)\n")],
      'R15.3', 'EditStream.post'),
    V('CSRF token re-use accepted',
      [(f'{RH}/csrf.py', "        if existing_key is not None:\n            raise CsrfFailureException(\"Re-use of csrf_token\")\n",
        "        if existing_key is not None:\n            logging.debug('token seen before')\n")], 'R15.4', 'CsrfProtection.check'),
    V('CSRF signature no longer covers the service',
      [(f'{RH}/csrf.py', "        sig.update(bytes(service, 'utf-8'))\n        if strict_origin:\n            sig.update(bytes(origin, 'utf-8'))\n        # logging.debug(\"check_csrf Referer",
        "        if strict_origin:\n            sig.update(bytes(origin, 'utf-8'))\n        # logging.debug(\"check_csrf Referer")],
      'R15.4', 'CsrfProtection.check'),
    V('CSRF mismatch only logged',
      [(f'{RH}/csrf.py', "            raise CsrfFailureException(\"signatures do not match\")", "            pass")],
      'R15.4', 'CsrfProtection.check'),
    V('neutral: decorator order swapped on a class',
      [(f'{RH}/keypairs.py', "    decorators = [uses_keypair, login_required(permission=models.Group.MEDIA)]",
        "    decorators = [login_required(permission=models.Group.MEDIA), uses_keypair]")], None),
]

# ---------------------------------------------------------------- C17
VARIANTS['C17'] = [
    V('stream -> media files cascade removed',
      [('dashlive/server/models/stream.py', "relationship('MediaFile', cascade=\"all, delete\")", "relationship('MediaFile')")],
      'R17.1', 'MediaFile.stream_pk'),
    V('multi-period stream -> periods cascade removed',
      [('dashlive/server/models/multi_period_stream.py', "back_populates='parent', order_by='Period.ordering', cascade=\"all, delete\")",
        "back_populates='parent', order_by='Period.ordering')")], 'R17.1', 'Period.parent_pk'),
    V('period -> adaptation sets cascade removed',
      [('dashlive/server/models/period.py', "back_populates=\"period\", cascade=\"all, delete\")", "back_populates=\"period\")")],
      'R17.1', 'AdaptationSet.period_pk'),
    V('media file name no longer unique',
      [('dashlive/server/models/mediafile.py', "mapped_column(sa.String(200), nullable=False, unique=True, index=True)",
        "mapped_column(sa.String(200), nullable=False, index=True)")], 'R17.2', 'MediaFile'),
    V('period id uniqueness dropped',
      [('dashlive/server/models/period.py', "        sa.UniqueConstraint(\"parent_pk\", \"pid\",\n                            name=\"single_period_id_per_mp_stream\"),\n", "")],
      'R17.2', 'Period'),
    V('replace-on-upload leaves the old file',
      [('dashlive/server/models/stream.py', "            mf.delete_file()\n            mf.delete()", "            mf.delete()")], 'R17.4', 'add_file'),
    V('new handler deletes a blob directly',
      [(f'{RH}/media_management.py', "            models.db.session.delete(mf)\n            models.db.session.commit()\n            result[\"deleted\"] = mfid",
        "            models.db.session.delete(mf.blob)\n            models.db.session.delete(mf)\n            models.db.session.commit()\n            result[\"deleted\"] = mfid")],
      'R17.1', 'MediaFile.blob_pk'),
    V('neutral: cascade spelled differently',
      [('dashlive/server/models/stream.py', "cascade=\"all, delete\")", "cascade=\"all, delete, delete-orphan\")")], None),
]

# ---------------------------------------------------------------- C16
VARIANTS['C16'] = [
    V('option parsing outside the try block',
      [(f'{RH}/manifest_requests.py', "        try:\n            options = self.calculate_options(\n                mode=mode,\n                args=flask.request.args,\n                stream=current_stream,\n                restrictions=mft.restrictions,\n                features=mft.features)\n        except ValueError as e:\n            logging.info('Invalid CGI parameters: %s', e)\n            return flask.make_response('Invalid CGI parameters', 400)\n        if mode != 'live':",
        "        options = self.calculate_options(\n            mode=mode,\n            args=flask.request.args,\n            stream=current_stream,\n            restrictions=mft.restrictions,\n            features=mft.features)\n        if mode != 'live':")],
      'R16.1', 'ServeManifest'),
    V('DRM names no longer validated',
      [('dashlive/server/options/drm_options.py', "        if drm not in ALL_DRM_NAMES:\n            raise ValueError(f'Unknown DRM system \"{drm}\"')\n", "")],
      'R16.8', '_drm_selection_from_string'),
    V('a new UTC method accepted but not handled',
      [('dashlive/server/options/utc_time_options.py', "'ntp', 'sntp', 'xsd'}", "'ntp', 'sntp', 'xsd', 'roughtime'}")],
      'R16.8', 'UTCMethod'),
    V('new unmapped error signal on the media path',
      [(f'{RH}/media_requests.py', "        if segment_num == 'init':\n            return self.generate_init_segment",
        "        if ext == 'm4s' and mf.content_type == 'text':\n            raise RuntimeError('m4s is not supported for text')\n        if segment_num == 'init':\n            return self.generate_init_segment")],
      'R16.1', 'LiveMedia'),
    V('segment lookup errors no longer mapped to 404',
      [(f'{RH}/media_requests.py', "        except ValueError as err:\n            logging.warning('ValueError: %s', err)\n            return flask.make_response('Not Found', 404)\n\n        assert mod_segment is not None",
        "        except KeyError as err:\n            logging.warning('ValueError: %s', err)\n            return flask.make_response('Not Found', 404)\n\n        assert mod_segment is not None")],
      'R16.1', 'LiveMedia'),
    V('box size guard removed from the loader',
      [(MP4, "            if hdr['size'] < hdr['header_size']:\n", "            if False:\n")], 'R16.4', 'Mp4Atom.load'),
    V('event interval guard removed',
      [('dashlive/server/events/repeating_event_base.py', "        if self.interval <= 0:\n            # a repeating event needs a positive interval, otherwise the\n            # loop below never reaches the end of the segment\n            return []\n", "")],
      'R16.4', 'create_emsg_boxes'),
    V('typo in a library attribute',
      [(f'{RH}/keypairs.py', "return flask.make_response(f'Unknown key {kpk}', 404)", "return flask.mk_response(f'Unknown key {kpk}', 404)")],
      'R16.5', 'KeyHandler.post'),
    V('int(x, 10) on a parsed int',
      [(f'{RH}/manifest_context.py', "                drop_seg = pos\n", "                drop_seg = int(pos, 10)\n")],
      'R16.6', 'calculate_injected_error_segments'),
    V('synthetic error fires for later segments too',
      [(f'{RH}/media_requests.py', "            if pos != seg_num:\n                continue", "            if pos > seg_num:\n                continue")],
      'R16.7', 'check_for_synthetic_http_error'),
    V('hard-coded 503 in a handler',
      [(f'{RH}/media_requests.py', "            return flask.make_response(\n                'stream.timing_reference has not been configured', 404)",
        "            return flask.make_response(\n                'stream.timing_reference has not been configured', 503)")],
      'R16.7', 'LiveMedia.get'),
    V('parser call loses its handler (model: upload inspect)',
      [(f'{RH}/media_management.py', "            return await self.fetch_and_show(flask.request.form['url'])",
        "            return await self.fetch_and_show(flask.request.form['url'])  # unchanged")], None),
    V('neutral: log message changed',
      [(f'{RH}/media_requests.py', "logging.warning('Invalid segment number: %s', err)", "logging.warning('Bad segment number: %s', err)")], None),
]

# ---------------------------------------------------------------- C07
OPT = 'dashlive/server/options'
VARIANTS['C07'] = [
    V('error list formatter removed',
      [(f'{OPT}/http_error.py', "        to_string=_errors_to_string,\n", "")], 'R07.1', 'TextHttpError'),
    V('none literal case-sensitive again',
      [(f'{OPT}/dash_option.py', "    def int_or_none_from_string(value: str) -> int | None:\n        if value is None or value.lower() in {'', 'none'}:",
        "    def int_or_none_from_string(value: str) -> int | None:\n        if value in {None, '', 'none'}:")], 'R07.1', 'Leeway'),
    V('start no longer quoted',
      [(f'{OPT}/manifest_options.py', "    return urllib.parse.quote(to_iso_datetime(value), safe=':')", "    return to_iso_datetime(value)")],
      'R07.1', 'AvailabilityStartTime'),
    V('bugs joined with a different separator',
      [(f'{OPT}/manifest_options.py', "to_string=lambda bugs: ','.join(bugs),", "to_string=lambda bugs: ';'.join(bugs),")], 'R07.1', 'Bugs'),
    V('leeway not forwarded to media requests',
      [(f'{OPT}/manifest_options.py', "    usage=OptionUsage.MANIFEST + OptionUsage.VIDEO + OptionUsage.AUDIO + OptionUsage.TEXT,\n    short_name='lee',",
        "    usage=OptionUsage.MANIFEST,\n    short_name='lee',")], 'R07.2', 'leeway'),
    V('playready version not forwarded',
      [(f'{OPT}/drm_options.py', "    usage=(OptionUsage.MANIFEST | OptionUsage.AUDIO | OptionUsage.VIDEO),\n    short_name='pvn',",
        "    usage=OptionUsage.MANIFEST,\n    short_name='pvn',")], 'R07.2', 'PlayreadyVersion'),
    V('parameters computed before the resolved start is stored',
      [(f'{RH}/manifest_context.py', "        if timing:\n            opts.availabilityStartTime = timing.availabilityStartTime\n            opts.timeShiftBufferDepth = timing.timeShiftBufferDepth\n            self.update_timing(timing)\n\n        self.cgi_params = self.calculate_cgi_parameters(\n            audio=audio_adps, video=video)\n",
        "        self.cgi_params = self.calculate_cgi_parameters(\n            audio=audio_adps, video=video)\n        if timing:\n            opts.availabilityStartTime = timing.availabilityStartTime\n            opts.timeShiftBufferDepth = timing.timeShiftBufferDepth\n            self.update_timing(timing)\n\n")],
      'R07.3', 'create_period'),
    V('audio parameters handed to the text tracks',
      [(f'{RH}/manifest_context.py', "            text.append_cgi_params(self.cgi_params.text)", "            text.append_cgi_params(self.cgi_params.audio)")],
      'R07.4', 'create_period'),
    V('sub-options ignore the usage mask',
      [(f'{OPT}/container.py', "            if use is not None and (opt.usage & use) == 0:\n                continue\n            if name in exclude:",
        "            if name in exclude:")], 'R07.4', '_convert_sub_options'),
    V('neutral: option description changed',
      [(f'{OPT}/manifest_options.py', "description='Sets availabilityStartTime for live streams',", "description='Sets MPD@availabilityStartTime',")], None),
]

# ---------------------------------------------------------------- C05
T = 'templates/manifests'
VARIANTS['C05'] = [
    V('title rendered bare', [(f'{T}/hand_made.mpd', "<Title>{{ title|xmlSafe }} </Title>", "<Title>{{ title }} </Title>")],
      'R05.1', 'hand_made.mpd'),
    V('xmlSafe weakened to ampersand only',
      [('dashlive/server/template_tags.py', "    return Markup(html.escape(value, quote=True))", "    return value.replace('&', '&amp;')")],
      'R05.1', 'manifest'),
    V('UTCTiming value bare', [(f'{T}/manifest_e.mpd', "value=\"{{ mpd.timeSource.value|xmlSafe }}\"", "value=\"{{mpd.timeSource.value}}\"")],
      'R05.5', 'manifest_e.mpd'),
    V('new free-text attribute', [(f'{T}/manifest_n.mpd', "    profiles=\"urn:mpeg:profile:isoff-live:2011\"",
                                   "    profiles=\"urn:mpeg:profile:isoff-live:2011\"\n    label=\"{{ stream.title }}\"")], 'R05.1', 'manifest_n.mpd'),
    V('duration attribute without isoDuration',
      [(f'{T}/manifest_a.mpd', "timeShiftBufferDepth=\"{{ mpd.timeShiftBufferDepth|isoDuration }}\"", "timeShiftBufferDepth=\"{{ mpd.timeShiftBufferDepth }}\"")],
      'R05.2', 'manifest_a.mpd'),
    V('dateTime attribute without isoDateTime',
      [(f'{T}/manifest_e.mpd', "publishTime=\"{{ mpd.publishTime|isoDateTime }}\"", "publishTime=\"{{ mpd.publishTime }}\"")], 'R05.2', 'manifest_e.mpd'),
    V('literal format placeholder in an integer attribute',
      [('templates/segment/durations.xml', "timescale=\"{{segDurations.timescale}}\"", "timescale=\"%d\"")], 'R05.2', 'durations.xml'),
    V('publishTime dropped from a dynamic manifest',
      [(f'{T}/manifest_h.mpd', "     publishTime=\"{{ mpd.publishTime|isoDateTime }}\"\n", "")], 'R05.3', 'manifest_h.mpd'),
    V('minBufferTime made conditional',
      [(f'{T}/manifest_a.mpd', "  minBufferTime=\"PT10S\"", "  {% if mpd.minBufferTime %}minBufferTime=\"PT10S\"{% endif %}")], 'R05.3', 'manifest_a.mpd'),
    V('unknown URL template identifier',
      [('dashlive/mpeg/dash/adaptation_set.py', "f'$RepresentationID$/$Number$.{suffix}'", "f'$RepresentationID$/$Index$.{suffix}'")], 'R05.4', 'AdaptationSet'),
    V('safe filter on option text',
      [('templates/events/inband_event_stream.xml', "value=\"{{stream.value}}\"", "value=\"{{stream.value|safe}}\"")], 'R05.1', 'inband_event_stream'),
    V('neutral: whitespace control changed',
      [(f'{T}/hand_made.mpd', " <ProgramInformation>\n", " <ProgramInformation >\n")], None),
]

# ---------------------------------------------------------------- C04 / C03 / C14
VARIANTS['C04'] = [
    V('tfdt v1 written with 32 bits',
      [(MP4, "    def encode_box_fields(self, dest):\n        d = FieldWriter(self, dest)\n        if self.version == 1:\n            d.write('Q', 'base_media_decode_time')",
        "    def encode_box_fields(self, dest):\n        d = FieldWriter(self, dest)\n        if self.version == 1:\n            d.write('I', 'base_media_decode_time')")],
      'R04.1', 'TrackFragmentDecodeTimeBox'),
    V('trun data_offset unsigned again',
      [(MP4, "            w.write('i', 'data_offset')", "            w.write('I', 'data_offset')")], 'R04.1', 'TrackFragmentRunBox'),
    V('tfhd writer swaps two optional fields',
      [(MP4, "        if self.flags & self.default_sample_duration_present:\n            w.write('I', 'default_sample_duration')\n        if self.flags & self.default_sample_size_present:\n            w.write('I', 'default_sample_size')",
        "        if self.flags & self.default_sample_size_present:\n            w.write('I', 'default_sample_size')\n        if self.flags & self.default_sample_duration_present:\n            w.write('I', 'default_sample_duration')")],
      'R04.1', 'TrackFragmentHeaderBox'),
    V('mvhd reserved area one byte short',
      [(MP4, "        d.write(10, 'reserved', value=(b'\\0' * 10))  # reserved", "        d.write(9, 'reserved', value=(b'\\0' * 9))  # reserved")],
      'R04.1', 'MovieHeaderBox'),
    V('saiz writer ignores the flag',
      [(MP4, "        w = FieldWriter(self, dest)\n        if self.flags & 1:\n            w.write('I', 'aux_info_type')\n            w.write('I', 'aux_info_type_parameter')\n        w.write('B', 'default_sample_info_size')",
        "        w = FieldWriter(self, dest)\n        if self.flags & 2:\n            w.write('I', 'aux_info_type')\n            w.write('I', 'aux_info_type_parameter')\n        w.write('B', 'default_sample_info_size')")],
      'R04.1', 'SampleAuxiliaryInformationSizesBox'),
    V('emsg v1 field order changed in the writer',
      [(MP4, "            d.write('I', 'timescale')\n            d.write('Q', 'presentation_time')\n            d.write('I', 'event_duration')",
        "            d.write('Q', 'presentation_time')\n            d.write('I', 'timescale')\n            d.write('I', 'event_duration')")],
      'R04.1', 'EventMessageBox'),
    V('pssh key ids lost again',
      [(MP4, "rv[\"key_ids\"].append(r.get(16, 'kid'))", "rv[\"key_ids\"].append(r.read(16, 'kid'))")], 'R04.6', 'ContentProtectionSpecificBox'),
    V('pssh data no longer declared Binary',
      [(MP4, "    OBJECT_FIELDS = {\n        \"data\": Binary,\n        \"key_ids\": ListOf(HexBinary),", "    OBJECT_FIELDS = {\n        \"key_ids\": ListOf(HexBinary),")],
      'R04.2', 'ContentProtectionSpecificBox'),
    V('remove_child forgets to invalidate',
      [(MP4, "            self.update_size(-child.size)\n        self.trigger_change()\n        self._invalidate()", "            self.update_size(-child.size)\n        self.trigger_change()")],
      'R04.3', 'remove_child'),
    V('field assignment keeps the cached bytes',
      [(MP4, "            if name[0] != '_' and name in self._fields:\n                self._invalidate()\n                self.trigger_change()",
        "            if name[0] != '_' and name in self._fields:\n                self.trigger_change()")], 'R04.3', '__setattr__'),
    V('post-encode fix-ups run before sizes are patched',
      [(MP4, "        self.size = out.tell() - self.position\n", "        if depth == 0:\n            self.post_encode_all(dest=out)\n        self.size = out.tell() - self.position\n")],
      'R04.3', 'Mp4Atom.encode'),
    V('neutral: writer variable renamed',
      [(MP4, "    def encode_box_fields(self, dest):\n        w = FieldWriter(self, dest)\n        w.write(16, 'system_id')",
        "    def encode_box_fields(self, dest):\n        w = FieldWriter(self, dest)  # pssh\n        w.write(16, 'system_id')")], None),
]

VARIANTS['C03'] = [
    V('trun data_offset unsigned again',
      [(MP4, "            w.write('i', 'data_offset')", "            w.write('I', 'data_offset')")], 'R03.1', 'TrackFragmentRunBox'),
    V('senc writer drops the IV size byte',
      [(MP4, "            d.write(3, 'algorithm_id', value=alg[1:])\n            d.write('B', 'iv_size')\n", "            d.write(3, 'algorithm_id', value=alg[1:])\n")],
      'R03.1', 'CencSampleEncryptionBox'),
    V('trun offset recomputed without the mdat header',
      [(MP4, "        mdat_sample_start = moof.position + moof.size + mdat.header_size", "        mdat_sample_start = moof.position + moof.size")],
      'R03.2', 'TrackFragmentRunBox.post_encode'),
    V('trun rewrite does not restore the stream position',
      [(MP4, "                dest.seek(pos)\n                self.output_box_fields(dest)\n            dest.seek(cur)", "                dest.seek(pos)\n                self.output_box_fields(dest)")],
      'R03.2', 'TrackFragmentRunBox.post_encode'),
    V('saio rewrite skipped without the bug flag',
      [(MP4, "            if self.options.has_bug('saio'):\n                return\n", "            if self.options.has_bug('saio') or len(self.offsets or []) == 1:\n                return\n")],
      'R03.3', 'SampleAuxiliaryInformationOffsetsBox.post_encode'),
    V('tfhd keeps a stale base_data_offset',
      [(MP4, "        if self.base_data_offset is None:\n            self.base_data_offset = self.find_atom('moof').position\n        w = FieldWriter(self, dest)", "        w = FieldWriter(self, dest)")],
      'R03.2', 'TrackFragmentHeaderBox'),
    V('neutral: emsg insertion does not mark the moof as moved (the base reset is unconditional since fix cfdb3c4)',
      [(f'{RH}/media_requests.py', "                        atom.children.insert(moof_idx + idx, emsg)\n                        moof_modified = True", "                        atom.children.insert(moof_idx + idx, emsg)")],
      None),
    V('emsg boxes counted from one past the moof index',
      [(f'{RH}/media_requests.py', "                    for idx, emsg in enumerate(boxes):\n                        atom.children.insert(moof_idx + idx, emsg)", "                    for idx, emsg in enumerate(boxes, start=moof_idx + 1):\n                        atom.children.insert(idx, emsg)")],
      'R03.5', 'generate_media_segment'),
    V('neutral: emsg index counted from the moof index by enumerate',
      [(f'{RH}/media_requests.py', "                    for idx, emsg in enumerate(boxes):\n                        atom.children.insert(moof_idx + idx, emsg)", "                    for idx, emsg in enumerate(boxes, start=moof_idx):\n                        atom.children.insert(idx, emsg)")]),
    V('neutral: tfdt insertion leaves forcing the trun data_offset to the unconditional statement before encode (since fix cfdb3c4)',
      [(f'{RH}/media_requests.py', "            traf.trun.flags |= mp4.TrackFragmentRunBox.data_offset_present\n", "")], None),
    V('trun data_offset forced on tfdt insertion only (fix cfdb3c4 reverted, part 2)',
      [(f'{RH}/media_requests.py', "        traf.trun.flags |= mp4.TrackFragmentRunBox.data_offset_present\n        if traf_modified:", "        if traf_modified:")],
      'R03.7', 'generate_media_segment'),
    V('tfhd base reset only when the moof was modified (fix cfdb3c4 reverted, part 1)',
      [(f'{RH}/media_requests.py', "        tfhd = traf.find_child('tfhd')\n        if tfhd is not None:\n", "        tfhd = traf.find_child('tfhd')\n        if moof_modified and tfhd is not None:\n")],
      'R03.7', 'generate_media_segment'),
    V('trun data_offset forced for video only',
      [(f'{RH}/media_requests.py', "        traf.trun.flags |= mp4.TrackFragmentRunBox.data_offset_present\n        if traf_modified:",
        "        if adp_set.content_type == 'video':\n            traf.trun.flags |= mp4.TrackFragmentRunBox.data_offset_present\n        if traf_modified:")],
      'R03.7', 'generate_media_segment'),
    V('neutral: trun in a local when forcing its data_offset',
      [(f'{RH}/media_requests.py', "        traf.trun.flags |= mp4.TrackFragmentRunBox.data_offset_present\n        if traf_modified:",
        "        trun = traf.trun\n        trun.flags |= trun.data_offset_present\n        if traf_modified:")], None),
    V('second writer after encode',
      [(f'{RH}/media_requests.py', "        data = dest.getvalue()\n        status = 200", "        dest.seek(0, 2)\n        dest.write(bytes(4))\n        data = dest.getvalue()\n        status = 200")],
      'R03.4', 'generate_media_segment'),
    V('PIFF insertion does not report the modification',
      [('dashlive/drm/playready.py', "        traf.trun._invalidate()\n        return True", "        traf.trun._invalidate()\n        return False")],
      'R03.5', 'update_traf_if_required'),
    V('neutral: debug log added', [(f'{RH}/media_requests.py', "        dest = io.BytesIO()\n        atom.encode(dest)", "        dest = io.BytesIO()\n        logging.debug('encoding')\n        atom.encode(dest)")], None),
]

SC = 'dashlive/scte35'
VARIANTS['C14'] = [
    V('break duration written with 32 bits',
      [(f'{SC}/break_duration.py', "        w.write(33, 'duration')", "        w.write(32, 'duration')")], 'R14.1', 'BreakDuration'),
    V('splice insert writer drops avail_num',
      [(f'{SC}/splice_insert.py', "        w.write(8, 'avail_num')\n        w.write(8, 'avails_expected')", "        w.write(8, 'avails_expected')")], 'R14.1', 'SpliceInsert'),
    V('section length placeholder width changed',
      [('dashlive/mpeg/section_table.py', "        w.write(12, 'section_length', value=0)", "        w.write(16, 'section_length', value=0)")], 'R14.1', 'MpegSectionTable'),
    V('emsg v0 sets the v1 field',
      [('dashlive/server/events/repeating_event_base.py', "                kwargs['presentation_time_delta'] = time_delta", "                kwargs['presentation_time'] = time_delta")],
      'R14.3', 'create_emsg_boxes'),
    V('emsg v0 delta measured from the end of the segment',
      [('dashlive/server/events/repeating_event_base.py', "                time_delta = presentation_time - seg_start", "                time_delta = presentation_time - seg_end")],
      'R14.3', 'create_emsg_boxes'),
    V('neutral: v0 delta without the intermediate local',
      [('dashlive/server/events/repeating_event_base.py', "                time_delta = presentation_time - seg_start\n                kwargs['presentation_time_delta'] = time_delta", "                kwargs['presentation_time_delta'] = presentation_time - seg_start")]),
    V('pts masked with a 34 bit constant',
      [('dashlive/server/events/scte35_events.py', "        pts &= 0x1FFFFFFFF  # PTS field is 33 bits\n", "        pts &= (1 << 34) - 1\n")], 'R14.2', 'create_binary_signal'),
    V('neutral: pts masked with a computed 33 bit constant',
      [('dashlive/server/events/scte35_events.py', "        pts &= 0x1FFFFFFFF  # PTS field is 33 bits\n", "        pts &= (1 << 33) - 1\n")]),
    V('pts no longer masked to 33 bits',
      [('dashlive/server/events/scte35_events.py', "        pts &= 0x1FFFFFFFF  # PTS field is 33 bits\n", "")], 'R14.2', 'create_binary_signal'),
    V('interval guard removed',
      [('dashlive/server/events/repeating_event_base.py', "        if self.interval <= 0:\n            # a repeating event needs a positive interval, otherwise the\n            # loop below never reaches the end of the segment\n            return []\n", "")],
      'R14.4', 'create_emsg_boxes'),
    V('out-of-band ids start at one',
      [('dashlive/server/events/repeating_event_base.py', "                    'id': idx,", "                    'id': idx + 1,")], 'R14.5', 'create_manifest_context'),
    V('avail descriptor implements the wrong hook',
      [(f'{SC}/descriptors.py', "    def parse_fields(cls, bit_reader, kwargs):\n        bit_reader.read(32, 'provider_avail_id')", "    def parse(cls, bit_reader, kwargs):\n        bit_reader.read(32, 'provider_avail_id')")],
      'R14.1p', 'AvailDescriptor'),
    V('neutral: comment in the codec', [(f'{SC}/break_duration.py', "        w.write(1, 'auto_return')", "        w.write(1, 'auto_return')  # flag")], None),
]

# ---------------------------------------------------------------- C10 / C11 / C12 / C06 / C09 / C18
MRQ = f'{RH}/media_requests.py'
VARIANTS['C10'] = [
    V('pssh appended without checking the moov hook',
      [(MRQ, "                if drm.moov is not None:\n                    pssh = drm.moov(representation.default_kid)\n                    atom.moov.append_child(pssh)",
        "                if drm.cenc is not None:\n                    pssh = drm.moov(representation.default_kid)\n                    atom.moov.append_child(pssh)")], 'R10.1', 'generate_init_segment'),
    V('mehd removed in every mode',
      [(MRQ, "        if mode == 'live':\n            try:\n                # remove the mehd box", "        if mode:\n            try:\n                # remove the mehd box")], 'R10.1', 'generate_init_segment'),
    V('extra box removed from the init segment',
      [(MRQ, "        data = atom.encode()\n        headers = {\n            'Accept-Ranges': 'bytes',\n            'Content-Type': content_type_to_mime_type(\n                media.content_type, media.codec_fourcc),",
        "        del atom.moov.udta\n        data = atom.encode()\n        headers = {\n            'Accept-Ranges': 'bytes',\n            'Content-Type': content_type_to_mime_type(\n                media.content_type, media.codec_fourcc),")],
      'R10.1', 'generate_init_segment'),
    V('clearkey ignores the moov location',
      [('dashlive/drm/clearkey.py', "        if DrmLocation.MOOV in locations:\n            moov = generate_pssh_box", "        if DrmLocation.CENC in locations:\n            moov = generate_pssh_box")],
      'R10.3', 'ClearKey'),
    V('playready moov generator always on',
      [('dashlive/drm/playready.py', "        moov: CreatePsshBox | None = None\n", "        moov: CreatePsshBox | None = generate_pssh_box\n")], 'R10.3', 'PlayReady'),
    V('init segment loaded read-only',
      [(MRQ, "mode='rw', lazy_load=True, bug_compatibility=options.bugCompatibility)", "mode='r', lazy_load=True, bug_compatibility=options.bugCompatibility)")],
      'R10.4', 'load_fragment'),
    V('neutral: local renamed',
      [(MRQ, "                    pssh = drm.moov(representation.default_kid)\n                    atom.moov.append_child(pssh)",
        "                    pssh_box = drm.moov(representation.default_kid)\n                    atom.moov.append_child(pssh_box)")], None),
]

VARIANTS['C11'] = [
    V('playready pro gated by the wrong location',
      [('dashlive/drm/playready.py', "        if DrmLocation.PRO in locations:\n            pro = generate_pro_data", "        if DrmLocation.CENC in locations:\n            pro = generate_pro_data")],
      'R11.1', 'PlayReady'),
    V('GUID word order swapped',
      [('dashlive/drm/playready.py', "        word1 = ''.join([guid[10:12], guid[8:10]])", "        word1 = ''.join([guid[8:10], guid[10:12]])")], 'R11.5', 'hex_to_le_guid'),
    V('GUID last word byte-swapped',
      [('dashlive/drm/playready.py', "        word3 = ''.join([guid[16:18], guid[18:20]])", "        word3 = ''.join([guid[18:20], guid[16:18]])")], 'R11.5', 'hex_to_le_guid'),
    V('clearkey endpoint returns a key for every requested id',
      [(f'{RH}/clearkey.py', "                keys.append(item)\n            result = {", "                keys.append(item)\n            for kid in kids:\n                keys.append({'kty': 'oct', 'kid': kid, 'k': ''})\n            result = {")],
      'R11.4', 'ClearkeyHandler'),
    V('clearkey decode errors not handled',
      [(f'{RH}/clearkey.py', "        except (TypeError, ValueError, KeyError) as err:", "        except (KeyError) as err:")], 'R11.4', 'ClearkeyHandler'),
    V('cenc pssh rendered regardless of the cenc flag',
      [('templates/drm/playready.xml', "  {%- if DRM.playready.cenc %}\n  <cenc:pssh>{{DRM.playready.cenc(adp.default_kid).encode()|base64}}</cenc:pssh>\n  {%- endif %}",
        "  {%- if DRM.playready.pro %}\n  <cenc:pssh>{{DRM.playready.cenc(adp.default_kid).encode()|base64}}</cenc:pssh>\n  {%- endif %}")],
      'R11.3', 'playready.xml'),
    V('default_KID from another field',
      [('templates/drm/template.xml', "cenc:default_KID=\"{{adp.default_kid|uuid}}\"/>", "cenc:default_KID=\"{{adp.id|uuid}}\"/>")], 'R11.3', 'template.xml'),
    V('neutral: whitespace in the template', [('templates/drm/marlin.xml', "  <mas:MarlinContentIds>", "  <mas:MarlinContentIds >")], None),
]

VARIANTS['C12'] = [
    V('period ownership test dropped',
      [(MRQ, "        period = models.Period.get(pk=ppk)\n        if period is None or period.parent_pk != current_mps.pk:\n            logging.warning('Period not found: mps=%s ppk=%d', mps_name, ppk)\n            return flask.make_response('Period not found', 404)\n        try:\n            options = self.calculate_options(\n                mode, flask.request.args, period.stream)\n        except ValueError as err:\n            logging.error('Invalid CGI parameters: %s', err)\n            return flask.make_response('Invalid CGI parameters', 400)\n        media = models.MediaFile.get(stream_pk=period.stream.pk, name=filename)\n        if media is None:\n            logging.warning('Media file not  found: mps=%s ppk=%d filename=%s',\n                            mps_name, ppk, filename)\n            return flask.make_response('File not found', 404)\n        return self.generate_init_segment",
        "        period = models.Period.get(pk=ppk)\n        if period is None:\n            logging.warning('Period not found: mps=%s ppk=%d', mps_name, ppk)\n            return flask.make_response('Period not found', 404)\n        try:\n            options = self.calculate_options(\n                mode, flask.request.args, period.stream)\n        except ValueError as err:\n            logging.error('Invalid CGI parameters: %s', err)\n            return flask.make_response('Invalid CGI parameters', 400)\n        media = models.MediaFile.get(stream_pk=period.stream.pk, name=filename)\n        if media is None:\n            logging.warning('Media file not  found: mps=%s ppk=%d filename=%s',\n                            mps_name, ppk, filename)\n            return flask.make_response('File not found', 404)\n        return self.generate_init_segment")],
      'R12.1', 'ServeMpsInitSeg'),
    V('beyond-the-end is a RuntimeError',
      [(MRQ, "                raise ValueError('Segment beyond end of media')", "                raise RuntimeError('Segment beyond end of media')")], 'R12.2', 'ServeMpsMedia'),
    V('period start not advanced',
      [(f'{RH}/manifest_context.py', "            period.start = start\n            self.periods.append(period)\n            start += period.duration\n", "            period.start = start\n            self.periods.append(period)\n")],
      'R12.4', 'create_all_vod_periods'),
    V('live period ids not unique per loop',
      [(f'{RH}/manifest_context.py', "            period.id = f\"{period.id}_{num_loops}\"\n", "")], 'R12.4', 'create_all_live_periods'),
    V('neutral: log text', [(MRQ, "\"Request for segment %d in file %s with duration %d\",", "\"Request for segment %d of %s (%d segments)\",")], None),
]

VARIANTS['C06'] = [
    V('exclusive end in SegmentList',
      [('dashlive/mpeg/dash/representation.py', "            end = seg.pos + seg.size - 1", "            end = seg.pos + seg.size")], 'R06.1', 'generateSegmentList'),
    V('open range ends at length',
      [(f'{RH}/base.py', "            if end_str == '':\n                end = content_length - 1", "            if end_str == '':\n                end = content_length")], 'R06.1', 'get_http_range'),
    V('duration from the representation instead of the reference',
      [('dashlive/mpeg/dash/timing.py', "        self.mediaDuration = timecode_to_timedelta(\n            self.stream_reference.media_duration, self.stream_reference.timescale)",
        "        self.mediaDuration = timecode_to_timedelta(\n            self.stream_reference.segment_duration * self.stream_reference.num_media_segments,\n            self.stream_reference.timescale)")],
      'R06.2', 'calculate_vod_params'),
    V('one past the last number accepted',
      [(MRQ, "        if seg_num < first or seg_num > last:\n            logging.info(", "        if seg_num < first or seg_num > last + 1:\n            logging.info(")], 'R06.3', 'LiveMedia'),
    V('static last number off by one',
      [('dashlive/mpeg/dash/representation.py', "            return (self.start_number, self.num_media_segments + self.start_number - 1)", "            return (self.start_number, self.num_media_segments + self.start_number)")],
      'R06.3', 'calculate_first_and_last_segment_number'),
    V('neutral: comment', [('dashlive/mpeg/dash/representation.py', "        first = True\n        for seg in self.segments:", "        first = True  # init range first\n        for seg in self.segments:")], None),
]

VARIANTS['C09'] = [
    V('patch forces fewer options than the URL omits',
      [(f'{RH}/manifest_requests.py', "        options.update(patch=True, segmentTimeline=True)", "        options.update(patch=True)")], 'R09.2', 'ServePatch'),
    V('patch query excludes an extra option',
      [(f'{RH}/manifest_context.py', "exclude=exclude.union({'timeline', 'patch'}))", "exclude=exclude.union({'timeline', 'patch', 'depth'}))")], 'R09.2', 'ServePatch'),
    V('patch selector uses another period attribute',
      [('templates/patches/hand_made.xml', "/MPD/Period[@id='{{ period.id }}']", "/MPD/Period[@id='{{ period.start }}']")], 'R09.1', 'hand_made.xml'),
    V('patch mpdId from another expression',
      [('templates/patches/hand_made.xml', "mpdId=\"{{ mpd.mpd_id }}\"", "mpdId=\"{{ mpd.title }}\"")], 'R09.1', 'hand_made.xml'),
    V('publish time in the URL uses the current time',
      [(f'{RH}/manifest_context.py', "                publish=int(timing.publishTime.timestamp()))", "                publish=int(timing.now.timestamp()))")], 'R09.3', 'ManifestContext'),
    V('originalPublishTime from the clock',
      [(f'{RH}/manifest_requests.py', "        original_publish_time = datetime.datetime.fromtimestamp(\n            publish, tz=UTC())", "        original_publish_time = datetime.datetime.now(tz=UTC())")],
      'R09.3', 'ServePatch'),
    V('neutral: debug text', [(f'{RH}/manifest_requests.py', "            'ServePatch: stream=%s manifest=%s', stream, manifest)", "            'ServePatch stream=%s manifest=%s', stream, manifest)")], None),
]

VD = 'dashlive/mpeg/dash/validator'
VARIANTS['C18'] = [
    V('sequence number check removed',
      [(f'{VD}/media_segment.py', "            self.elt.check_equal(\n                self.expected_seg_num, moof.mfhd.sequence_number,\n                template=r'Sequence number error, expected {0}, got {1}')", "            pass")],
      'R18.1', 'media_segment'),
    V('decode time compared with itself',
      [(f'{VD}/media_segment.py', "            self.elt.check_almost_equal(\n                self.expected_decode_time,\n                self.decode_time,", "            self.elt.check_almost_equal(\n                self.expected_decode_time,\n                self.expected_decode_time,")],
      'R18.1', 'media_segment'),
    V('saio offset check dropped',
      [(f'{VD}/media_segment.py', "        self.elt.check_equal(\n            sample_pos, saio.offsets[0] + base_data_offset, msg=msg)", "        self.log.debug(msg)")], 'R18.1', 'media_segment'),
    V('ftyp presence not checked',
      [(f'{VD}/init_segment.py', "        self.elt.check_equal(self.atoms[0].atom_type, 'ftyp')\n", "")],
      'R18.1', 'init_segment'),
    V('live manifest availabilityStartTime not required',
      [(f'{VD}/manifest.py', "            self.attrs.check_not_none(\n                self.availabilityStartTime,\n                msg=f\"MPD@availabilityStartTime must be present for live manifest: {self.url}\")", "            pass")],
      'R18.1', 'manifest'),
    V('neutral: message text', [(f'{VD}/media_segment.py', "template=r'Sequence number error, expected {0}, got {1}')", "template=r'Sequence number mismatch, expected {0}, got {1}')")], None),
]

# ---------------------------------------------------------------- C08
TM = 'dashlive/mpeg/dash/timing.py'
_CL = 'calculate_live_params'
VARIANTS['C08'] = [
    V('negative depth used as it is (fix 06c5d85 reverted)',
      [(TM, "        if self.timeShiftBufferDepth is None or self.timeShiftBufferDepth <= 0:\n",
        "        if not self.timeShiftBufferDepth:\n")], 'R08.3', _CL),
    V('default update period can be zero (fix 156b25f reverted)',
      [(TM, "default_mup = max(1, round(\n            2.0 * self.stream_reference.segment_duration / self.stream_reference.timescale))",
        "default_mup = round(2.0 * self.stream_reference.segment_duration / self.stream_reference.timescale)")],
      'R08.7', _CL),
    V("'today' loses its first-minute back-off",
      [(TM, "            if self.publishTime.hour == 0 and self.publishTime.minute == 0:\n                self.availabilityStartTime -= datetime.timedelta(days=1)\n", "")],
      'R08.5', _CL),
    V("'today' back-off tests the hour only after midnight second",
      [(TM, "if self.publishTime.hour == 0 and self.publishTime.minute == 0:",
        "if self.publishTime.hour == 0 and self.publishTime.minute == 0 and self.publishTime.second == 0:")],
      'R08.5', _CL),
    V("'month' back-off comparison inverted",
      [(TM, "                day=1, hour=0, minute=0, second=0, microsecond=0)\n            if (self.publishTime - self.availabilityStartTime) < one_day:",
        "                day=1, hour=0, minute=0, second=0, microsecond=0)\n            if (self.publishTime - self.availabilityStartTime) > one_day:")],
      'R08.5', _CL),
    V("'now' start is the publish time itself",
      [(TM, "                self.publishTime -\n                datetime.timedelta(seconds=self.DEFAULT_TIMESHIFT_BUFFER_DEPTH))",
        "                self.publishTime -\n                datetime.timedelta(seconds=0))")], 'R08.5', _CL),
    V('depth not clamped to the age of the stream',
      [(TM, "        if self.elapsedTime.total_seconds() < self.timeShiftBufferDepth:\n            self.timeShiftBufferDepth = int(self.elapsedTime.total_seconds())\n", "")],
      'R08.3', _CL),
    V('depth clamp rounds up',
      [(TM, "            self.timeShiftBufferDepth = int(self.elapsedTime.total_seconds())",
        "            self.timeShiftBufferDepth = round(self.elapsedTime.total_seconds())")], 'R08.3', _CL),
    V('firstAvailableTime uses the requested, not the clamped depth',
      [(TM, "        self.firstAvailableTime = self.elapsedTime - datetime.timedelta(\n            seconds=self.timeShiftBufferDepth)",
        "        self.firstAvailableTime = self.elapsedTime - datetime.timedelta(\n            seconds=(options.timeShiftBufferDepth or self.DEFAULT_TIMESHIFT_BUFFER_DEPTH))")],
      'R08.4', _CL),
    V('publishTime rounded up to the next refresh',
      [(TM, "                    num_refreshes * self.minimumUpdatePeriod)))",
        "                    (num_refreshes + 1) * self.minimumUpdatePeriod)))")], 'R08.2', _CL),
    V('publishTime keeps its microseconds',
      [(TM, "        self.publishTime = now.replace(microsecond=0)", "        self.publishTime = now")], 'R08.2', _CL),
    V('epoch constant in the future',
      [(TM, "datetime.datetime(1970, 1, 1, 0, 0, tzinfo=UTC())", "datetime.datetime(2070, 1, 1, 0, 0, tzinfo=UTC())")],
      'R08.1', _CL),
    V('mup=0 is treated as a period',
      [(TM, "        elif self.minimumUpdatePeriod <= 0:", "        elif self.minimumUpdatePeriod < 0:")], 'R08.7', _CL),
    V("'year' branch removed",
      [(TM, "        elif options.availabilityStartTime == 'year':\n            self.availabilityStartTime = now.replace(\n                month=1, day=1, hour=0, minute=0, second=0, microsecond=0)\n            if (self.publishTime - self.availabilityStartTime) < one_day:\n                self.availabilityStartTime -= one_day\n", "")],
      'R08.8', _CL),
    V('elapsed time measured from the publish time',
      [(TM, "        self.elapsedTime = now - self.availabilityStartTime", "        self.elapsedTime = self.publishTime - self.availabilityStartTime")],
      'R08.3', _CL),
    V('neutral: clamp written with min()',
      [(TM, "        if self.elapsedTime.total_seconds() < self.timeShiftBufferDepth:\n            self.timeShiftBufferDepth = int(self.elapsedTime.total_seconds())\n",
        "        self.timeShiftBufferDepth = min(self.timeShiftBufferDepth, int(self.elapsedTime.total_seconds()))\n")], None),
    V('neutral: one_day inlined',
      [(TM, "            if (self.publishTime - self.availabilityStartTime) < one_day:\n                self.availabilityStartTime -= one_day\n        elif options.availabilityStartTime == 'year':",
        "            if (self.publishTime - self.availabilityStartTime) < datetime.timedelta(days=1):\n                self.availabilityStartTime -= datetime.timedelta(hours=24)\n        elif options.availabilityStartTime == 'year':")], None),
    V("neutral: 'today' back-off as a difference test",
      [(TM, "if self.publishTime.hour == 0 and self.publishTime.minute == 0:",
        "if (self.publishTime - self.availabilityStartTime) < datetime.timedelta(minutes=1):")], None),
    V('neutral: day floor taken from publishTime',
      [(TM, "            self.availabilityStartTime = now.replace(\n                hour=0, minute=0, second=0, microsecond=0)",
        "            self.availabilityStartTime = self.publishTime.replace(\n                hour=0, minute=0, second=0)")], None),
    V('neutral: period through a local alias',
      [(TM, "            num_refreshes = int(\n                self.elapsedTime.total_seconds() // self.minimumUpdatePeriod)\n            self.publishTime = (\n                self.availabilityStartTime +\n                datetime.timedelta(seconds=(\n                    num_refreshes * self.minimumUpdatePeriod)))",
        "            mup = self.minimumUpdatePeriod\n            num_refreshes = int(\n                self.elapsedTime.total_seconds() // mup)\n            self.publishTime = (\n                self.availabilityStartTime +\n                datetime.timedelta(seconds=(\n                    num_refreshes * mup)))")], None),
    V('neutral: depth default written with a conditional expression',
      [(TM, "        if self.timeShiftBufferDepth is None or self.timeShiftBufferDepth <= 0:\n            self.timeShiftBufferDepth = self.DEFAULT_TIMESHIFT_BUFFER_DEPTH\n",
        "        if self.timeShiftBufferDepth is None:\n            self.timeShiftBufferDepth = self.DEFAULT_TIMESHIFT_BUFFER_DEPTH\n        elif self.timeShiftBufferDepth < 1:\n            self.timeShiftBufferDepth = self.DEFAULT_TIMESHIFT_BUFFER_DEPTH\n")], None),
]

# ---------------------------------------------------------------- neutral rewrites for the rules added after the seeded changes
REPF = 'dashlive/mpeg/dash/representation.py'
MRF = 'dashlive/server/requesthandler/media_requests.py'
VARIANTS['C10'] += [
    V('neutral: locations chosen with a conditional expression',
      [('dashlive/server/options/drm_options.py',
        "        if '-' in item:\n            parts = item.split('-')\n            drm = parts[0]\n            locations = {DrmLocation(loc) for loc in parts[1:]}\n        else:\n            drm = item\n            locations = ALL_DRM_LOCATIONS\n",
        "        drm, *locs = item.split('-')\n        locations = {DrmLocation(loc) for loc in locs} if locs else ALL_DRM_LOCATIONS\n")], None),
]
VARIANTS['C12'] += [
    V('neutral: conversion in integer arithmetic, multiply first',
      [(MRF, "            start_time = int(math.floor(\n                start_time * representation.timescale / timing_ref.timescale))",
        "            start_time = start_time * representation.timescale // timing_ref.timescale")], None),
    V('ratio of the timescales rounded before use',
      [(MRF, "            start_time = int(math.floor(\n                start_time * representation.timescale / timing_ref.timescale))",
        "            start_time = start_time * round(representation.timescale / timing_ref.timescale)")], 'R12.5', 'calculate_media_segment_index'),
]
VARIANTS['C09'] += [
    V('neutral: wrap block reordered',
      [(REPF, "                mod_segment = 1\n                origin_time += ref_duration_tc\n                seg_start_tc = origin_time\n",
        "                origin_time += ref_duration_tc\n                seg_start_tc = origin_time\n                mod_segment = 1\n")], None),
    V('wrap re-bases the start before the origin is advanced',
      [(REPF, "                mod_segment = 1\n                origin_time += ref_duration_tc\n                seg_start_tc = origin_time\n",
        "                mod_segment = 1\n                seg_start_tc = origin_time\n                origin_time += ref_duration_tc\n")], 'R09.4', 'get_segment_index'),
]
VARIANTS['C13'] += [
    V('neutral: length through a local name',
      [(MRF, "            start, end, status, range_headers = self.get_http_range(len(data))",
        "            total = len(data)\n            start, end, status, range_headers = self.get_http_range(total)")], None),
]
VARIANTS['C11'] += [
    V('neutral: digests continued from copies of the previous hash state',
      [('dashlive/drm/playready.py',
        "        sha_B = SHA256.new()\n        sha_B.update(truncatedKeySeed)\n        sha_B.update(keyId)\n        sha_B.update(truncatedKeySeed)\n",
        "        sha_B = sha_A.copy()\n        sha_B.update(truncatedKeySeed)\n")], None),
    V('xor fold drops the upper half of digest C',
      [('dashlive/drm/playready.py', "                ^ sha_C_Output[i] ^ sha_C_Output[i + PlayReady.DRM_AES_KEYSIZE_128]",
        "                ^ sha_C_Output[i] ^ sha_B_Output[i + PlayReady.DRM_AES_KEYSIZE_128]")], 'R11.6', 'generate_content_key'),
    V('seed truncated to 32 bytes',
      [('dashlive/drm/playready.py', "        truncatedKeySeed = keySeed[:30]\n", "        truncatedKeySeed = keySeed[:32]\n")],
      'R11.6', 'generate_content_key'),
]
VARIANTS['C04'] += [
    V('neutral: sidx reference packed with shifts and full-width masks',
      [('dashlive/mpeg/mp4.py',
        "        w.writebits(1, 'ref_type')\n        w.writebits(31, 'ref_size')\n        w.writebits(32, 'duration')\n        w.writebits(1, 'starts_with_SAP')\n        w.writebits(3, 'SAP_type')\n        w.writebits(28, 'SAP_delta_time')\n        w.done()\n",
        "        w.write('I', 'reference', value=(\n            (int(self.ref_type) << 31) | (self.ref_size & 0x7FFFFFFF)))\n        w.write('I', 'duration')\n        w.write('I', 'sap', value=(\n            (int(self.starts_with_SAP) << 31) |\n            ((self.SAP_type & 0x07) << 28) |\n            (self.SAP_delta_time & 0x0FFFFFFF)))\n")], None),
    V('sidx SAP_type packed one bit too low',
      [('dashlive/mpeg/mp4.py',
        "        w.writebits(1, 'ref_type')\n        w.writebits(31, 'ref_size')\n        w.writebits(32, 'duration')\n        w.writebits(1, 'starts_with_SAP')\n        w.writebits(3, 'SAP_type')\n        w.writebits(28, 'SAP_delta_time')\n        w.done()\n",
        "        w.write('I', 'reference', value=(\n            (int(self.ref_type) << 31) | (self.ref_size & 0x7FFFFFFF)))\n        w.write('I', 'duration')\n        w.write('I', 'sap', value=(\n            (int(self.starts_with_SAP) << 31) |\n            ((self.SAP_type & 0x07) << 27) |\n            (self.SAP_delta_time & 0x07FFFFFF)))\n")], 'R04.1', 'SegmentReference'),
]
VARIANTS['C05'] += [
    V('neutral: xmlSafe as a replace chain, ampersand first',
      [('dashlive/server/template_tags.py', "    return Markup(html.escape(value, quote=True))",
        "    value = value.replace('&', '&amp;').replace('<', '&lt;').replace('>', '&gt;')\n    value = value.replace('\"', '&quot;').replace(\"'\", '&#x27;')\n    return Markup(value)")], None),
    V('xmlSafe escapes a copy and returns the original',
      [('dashlive/server/template_tags.py', "    return Markup(html.escape(value, quote=True))",
        "    escaped = html.escape(value, quote=True)\n    return Markup(value if escaped == value else value)")], 'R05.0', 'xmlSafe'),
]
VARIANTS['C06'] += [
    V('neutral: running end derived from start + duration',
      [(REPF, "                    segment_start_time = atom.traf.tfdt.base_media_decode_time\n                    segment_end_time = segment_start_time\n                if representation_start_time is None:\n                    representation_start_time = segment_start_time\n                for sample in atom.traf.trun.samples:\n                    segment_end_time += sample.duration\n",
        "                    segment_start_time = tfdt.base_media_decode_time\n                if representation_start_time is None:\n                    representation_start_time = segment_start_time\n                segment_end_time = segment_start_time + dur\n")], None),
    V('a tfdt fragment keeps the running end of the previous one',
      [(REPF, "                    segment_start_time = atom.traf.tfdt.base_media_decode_time\n                    segment_end_time = segment_start_time\n",
        "                    segment_start_time = atom.traf.tfdt.base_media_decode_time\n")], 'R06.4', 'Representation.load'),
]
VARIANTS['C18'] += [
    V('neutral: decode time check also requires a tfdt box',
      [('dashlive/mpeg/dash/validator/media_segment.py', "        if self.expected_decode_time is not None:\n            tc_diff",
        "        if self.expected_decode_time is not None and moof.traf.tfdt is not None:\n            tc_diff")], None),
    V('sequence number check skipped for number 0',
      [('dashlive/mpeg/dash/validator/media_segment.py', "        if self.expected_seg_num is not None:\n            self.elt.check_equal(",
        "        if self.expected_seg_num:\n            self.elt.check_equal(")], 'R18.4', 'validate_segment'),
]
VARIANTS['C17'] += [
    V('stream cascades deletes to its timing reference owner (many-to-one)',
      [('dashlive/server/models/mediafile.py', "    stream: Mapped[\"Stream\"] = relationship('Stream', back_populates='media_files')",
        "    stream: Mapped[\"Stream\"] = relationship('Stream', back_populates='media_files', cascade='all, delete')")],
      'R17.5', 'MediaFile.stream'),
]
VARIANTS['C07'] += [
    V('neutral: skip conditions merged',
      [('dashlive/server/options/container.py', "            if use is not None and (opt.usage & use) == 0:\n                continue\n            if name in exclude:\n                continue\n",
        "            if (use is not None and (opt.usage & use) == 0) or name in exclude:\n                continue\n")], None),
    V('empty strings left out of the URL',
      [('dashlive/server/options/container.py', "            destination[getattr(opt, attr_name)] = opt.to_string(value)",
        "            if value == '':\n                continue\n            destination[getattr(opt, attr_name)] = opt.to_string(value)")], 'R07.4', '_generate_parameters_dict'),
]

VARIANTS['C16'] += [
    V('counter reset stores None again (fix 592d3ea reverted)',
      [('dashlive/server/requesthandler/base.py', "        flask.session[key] = 0\n", "        flask.session[key] = None\n")],
      'R16.9', 'increment_error_counter'),
    V('neutral: counter reset removes the key',
      [('dashlive/server/requesthandler/base.py', "        flask.session[key] = 0\n", "        flask.session.pop(key, None)\n")], None),
]

EVB = 'dashlive/server/events/repeating_event_base.py'
VARIANTS['C14'] += [
    V('schedule bound checked only after an event was emitted (fix 3c9a90c reverted)',
      [(EVB, "            if self.count > 0 and event_id >= self.count:\n                # the schedule has only the events 0 .. count-1\n                break\n", "")],
      'R14.7', 'create_emsg_boxes'),
    V('schedule bound off by one',
      [(EVB, "            if self.count > 0 and event_id >= self.count:\n                # the schedule", "            if self.count > 0 and event_id > self.count:\n                # the schedule")],
      'R14.7', 'create_emsg_boxes'),
    V('neutral: schedule bound folded into the loop condition',
      [(EVB, "        while presentation_time < seg_end:\n            if self.count > 0 and event_id >= self.count:\n                # the schedule has only the events 0 .. count-1\n                break\n",
        "        while presentation_time < seg_end and (self.count <= 0 or event_id < self.count):\n")], None),
]

VARIANTS['C18'] += [
    V('neutral: end of the sample run from the last sample offset plus its size',
      [('dashlive/mpeg/dash/validator/media_segment.py',
        "        last_sample_end = first_sample_pos\n        for samp in moof.traf.trun.samples:\n            last_sample_end += samp.size\n",
        "        last_sample_end = first_sample_pos\n        if moof.traf.trun.samples:\n            last = moof.traf.trun.samples[-1]\n            last_sample_end = moof.traf.tfhd.base_data_offset + last.offset + last.size\n")], None),
    V('neutral: end of the sample run with sum()',
      [('dashlive/mpeg/dash/validator/media_segment.py',
        "        last_sample_end = first_sample_pos\n        for samp in moof.traf.trun.samples:\n            last_sample_end += samp.size\n",
        "        last_sample_end = first_sample_pos + sum(samp.size for samp in moof.traf.trun.samples)\n")], None),
]

VARIANTS['C19'] += [
    V('date-time rendered at millisecond precision',
      [('dashlive/utils/date_time.py', "    rv = value.isoformat()\n", "    rv = value.isoformat(timespec='milliseconds')\n")],
      'R19.5', 'to_iso_datetime'),
    V('date-time rendered after dropping the microseconds',
      [('dashlive/utils/date_time.py', "    rv = value.isoformat()\n", "    rv = value.replace(microsecond=0).isoformat()\n")],
      'R19.5', 'to_iso_datetime'),
    V('neutral: explicit separator and full precision',
      [('dashlive/utils/date_time.py', "    rv = value.isoformat()\n", "    rv = value.isoformat(sep='T', timespec='auto')\n")], None),
]

VARIANTS['C07'] += [
    V('licence URL lower-cased before it is written into media URLs',
      [('dashlive/server/options/dash_option.py', "        return urllib.parse.quote_plus(value)\n", "        return urllib.parse.quote_plus(value.lower())\n")],
      'R07.1', 'LicenseUrl'),
    V('start time truncated to whole seconds in media URLs',
      [('dashlive/server/options/manifest_options.py', "    return urllib.parse.quote(to_iso_datetime(value), safe=':')\n",
        "    return urllib.parse.quote(to_iso_datetime(value.replace(microsecond=0)), safe=':')\n")],
      'R07.1', 'AvailabilityStartTime'),
    V('neutral: start time text in a local before quoting',
      [('dashlive/server/options/manifest_options.py', "    return urllib.parse.quote(to_iso_datetime(value), safe=':')\n",
        "    text = to_iso_datetime(value)\n    return urllib.parse.quote(text, safe=':')\n")], None),
]

VARIANTS['C16'] += [
    V('counter reset under a differently formatted session key',
      [('dashlive/server/requesthandler/base.py', "    def reset_error_counter(self, usage: str, code: int) -> None:\n        key = f'error-{usage}-{code:06d}'\n",
        "    def reset_error_counter(self, usage: str, code: int) -> None:\n        key = f'error-{usage}-{code}'\n")],
      'R16.9', 'reset_error_counter'),
]

PRF = 'dashlive/drm/playready.py'
VARIANTS['C11'] += [
    V('WRMHEADER checksum of the first key beside the default KID',
      [(PRF, '        context["checksum"] = self.generate_checksum(default_keypair)\n',
        '        context["checksum"] = kids[0]["checksum"]\n')], 'R11.7', 'generate_wrmheader'),
    V('per-key checksum computed from the default key',
      [(PRF, "                'checksum': self.generate_checksum(keypair),\n",
        "                'checksum': self.generate_checksum(keys[default_kid.lower()]),\n")], 'R11.7', 'generate_wrmheader'),
    V('neutral: default checksum set in the context literal',
      [(PRF, '                                    kids=[a["kid"] for a in kids]\n                                    )\n        }\n        context["checksum"] = self.generate_checksum(default_keypair)\n',
        '                                    kids=[a["kid"] for a in kids]\n                                    ),\n            "checksum": self.generate_checksum(default_keypair),\n        }\n')], None),
]

VARIANTS['C14'] += [
    V('finished-schedule exit also taken when the last event is on the segment start',
      [(EVB, "            ev_end = presentation_time + (self.count * self.interval)\n            if ev_end < seg_start:\n",
        "            ev_end = presentation_time + ((self.count - 1) * self.interval)\n            if ev_end <= seg_start:\n")],
      'R14.9', 'create_emsg_boxes'),
    V('not-yet-started exit compares with the segment start',
      [(EVB, "        if presentation_time >= seg_end:\n            return []\n", "        if presentation_time >= seg_start:\n            return []\n")],
      'R14.9', 'create_emsg_boxes'),
    V('neutral: finished-schedule exit written with <= on the end of the schedule',
      [(EVB, "            if ev_end < seg_start:\n", "            if ev_end <= seg_start:\n")], None),
    V('neutral: last event computed explicitly',
      [(EVB, "            ev_end = presentation_time + (self.count * self.interval)\n            if ev_end < seg_start:\n",
        "            last_event = presentation_time + (self.count - 1) * self.interval\n            if last_event < seg_start:\n")], None),
]

VARIANTS['C06'] += [
    V('static timeline absorbs the drift in its last entry',
      [(REPF, "            mod_segment = 1\n            drift = 0\n",
        "            mod_segment = 1\n            drift = ref_duration_tc - self.mediaDuration\n")],
      'R06.6', 'generateSegmentTimeline'),
    V('neutral: static drift named',
      [(REPF, "            mod_segment = 1\n            drift = 0\n",
        "            mod_segment = 1\n            no_drift = 0\n            drift = no_drift\n")], None),
]

VARIANTS['C18'] += [
    V('refresh clears the validator\'s own findings',
      [('dashlive/mpeg/dash/validator/validator.py', "        self.prev_manifest.reset_errors()\n", "        self.reset_errors()\n")],
      'R18.5', 'refresh'),
    V('errors cleared before they are archived',
      [('dashlive/mpeg/dash/validator/validator.py', "        self.history.append(ValidationHistory(\n            url=self.url, publishTime=self.prev_manifest.publishTime,\n            errors=self.prev_manifest.get_errors()))\n        self.prev_manifest.reset_errors()\n",
        "        self.prev_manifest.reset_errors()\n        self.history.append(ValidationHistory(\n            url=self.url, publishTime=self.prev_manifest.publishTime,\n            errors=self.prev_manifest.get_errors()))\n")],
      'R18.5', 'refresh'),
    V('neutral: previous manifest in a local',
      [('dashlive/mpeg/dash/validator/validator.py', "        self.history.append(ValidationHistory(\n            url=self.url, publishTime=self.prev_manifest.publishTime,\n            errors=self.prev_manifest.get_errors()))\n        self.prev_manifest.reset_errors()\n",
        "        prev = self.prev_manifest\n        self.history.append(ValidationHistory(\n            url=self.url, publishTime=prev.publishTime,\n            errors=prev.get_errors()))\n        prev.reset_errors()\n")], None),
]

VARIANTS['C17'] += [
    V('error rows left to a database cascade that is never enforced',
      [('dashlive/server/models/mediafile.py', "        'MediaFileError', cascade=\"all, delete\")", "        'MediaFileError', cascade=\"all, delete\", passive_deletes=True)")],
      'R17.1', 'MediaFileError.media_pk'),
    V('neutral: ON DELETE declared next to the ORM cascade',
      [('dashlive/server/models/mediafile_error.py', "sa.ForeignKey('media_file.pk')", "sa.ForeignKey('media_file.pk', ondelete='CASCADE')")], None),
]

VARIANTS['C06'] += [
    V('SegmentDurations entry reused after it was listed (fix f27d4c1 reverted)',
      [(REPF, "                    # start a new entry: the one just listed must keep its values\n                    s_node = SegmentTimelineElement()\n",
        "                    s_node.count = 0\n")], 'R06.7', 'generateSegmentDurations'),
    V('timeline entry modified after it was listed',
      [(REPF, "                output_s_node(s_node)\n                s_node = SegmentTimelineElement(mod_segment=mod_segment)\n",
        "                output_s_node(s_node)\n                s_node.count = 0\n")], 'R06.7', 'generateSegmentTimeline'),
]

VARIANTS['C05'] += [
    V('timeline entry listed even when the loop never ran',
      [(REPF, "        def output_s_node(sn: SegmentTimelineElement) -> None:\n            if sn.duration is not None:\n                rv.append(sn)\n\n        stream_ref",
        "        def output_s_node(sn: SegmentTimelineElement) -> None:\n            rv.append(sn)\n\n        stream_ref")],
      'R05.6', 'generateSegmentTimeline'),
    V('neutral: redundant in-loop guard dropped',
      [(REPF, "            elif duration != s_node.duration:\n                output_s_node(s_node)\n", "            elif duration != s_node.duration:\n                rv.append(s_node)\n")], None),
]

MP4F = 'dashlive/mpeg/mp4.py'
VARIANTS['C03'] += [
    V('trun fix-up measured from the moof instead of the tfhd base',
      [(MP4F, "            self.data_offset = mdat_sample_start - moof.traf.tfhd.base_data_offset\n",
        "            self.data_offset = mdat_sample_start - moof.position\n")], 'R03.2', 'TrackFragmentRunBox.post_encode'),
    V('neutral: tfhd base in a local',
      [(MP4F, "        first_sample_pos: int = moof.traf.tfhd.base_data_offset\n", "        base: int = moof.traf.tfhd.base_data_offset\n        first_sample_pos: int = base\n"),
       (MP4F, "            self.data_offset = mdat_sample_start - moof.traf.tfhd.base_data_offset\n", "            self.data_offset = mdat_sample_start - base\n")], None),
]

BRF = 'dashlive/utils/buffered_reader.py'
VARIANTS['C20'] += [
    V('seek skipped when the previous fill ended at this bucket',
      [(BRF, "        if self.reader.tell() != (bucket + self.offset):\n            self.reader.seek(bucket + self.offset, io.SEEK_SET)\n",
        "        if bucket != getattr(self, '_last_end', None):\n            self.reader.seek(bucket + self.offset, io.SEEK_SET)\n")],
      'R20.7', 'cache'),
    V('neutral: unconditional seek before the fill',
      [(BRF, "        if self.reader.tell() != (bucket + self.offset):\n            self.reader.seek(bucket + self.offset, io.SEEK_SET)\n",
        "        self.reader.seek(bucket + self.offset, io.SEEK_SET)\n")], None),
    V('neutral: file position in a local',
      [(BRF, "        if self.reader.tell() != (bucket + self.offset):\n            self.reader.seek(bucket + self.offset, io.SEEK_SET)\n",
        "        file_pos = bucket + self.offset\n        if self.reader.tell() != file_pos:\n            self.reader.seek(file_pos, io.SEEK_SET)\n")], None),
]

VARIANTS['C10'] += [
    V('mehd deleted by a path that does not exist (fix 60282d5 reverted)',
      [(MRQ, "                del atom.moov.mvex.mehd\n", "                del atom.moov.mehd\n")], 'R10.6', 'generate_init_segment'),
]

VARIANTS['C03'] += [
    V('neutral: sidx removal no longer marks the moof as moved (fix 493dccc reverted; harmless since fix cfdb3c4 resets the base on every path)',
      [(MRQ, "            del atom.sidx\n            # a sidx box in front of the moof box means that the moof\n            # box has now moved\n            moof_modified = True\n",
        "            del atom.sidx\n")], None),
    V('neutral: sidx removal marks the moof through a local',
      [(MRQ, "            del atom.sidx\n            # a sidx box in front of the moof box means that the moof\n            # box has now moved\n            moof_modified = True\n",
        "            del atom.sidx\n            sidx_removed = True\n            moof_modified = sidx_removed\n")], None),
]

VARIANTS['C06'] += [
    V('static timeline runs for the reference duration (fix a0e4811 reverted)',
      [(REPF, "            # a static manifest lists each stored segment exactly once\n            end = self.mediaDuration\n", "            end = ref_duration_tc\n")],
      'R06.8', 'generateSegmentTimeline'),
    V('neutral: own duration through a local',
      [(REPF, "            # a static manifest lists each stored segment exactly once\n            end = self.mediaDuration\n", "            own_duration = self.mediaDuration\n            end = own_duration\n")], None),
]

VALF = 'dashlive/mpeg/dash/validator'
VARIANTS['C18'] += [
    V('InbandEventStream passes a depth its parent does not take (fix 63aa184 reverted)',
      [(f'{VALF}/events.py', "        await super().validate()\n        self.elt.check_equal(\n            len(self._children), 0,",
        "        await super().validate(depth)\n        self.elt.check_equal(\n            len(self._children), 0,")], 'R18.6', 'InbandEventStream.validate'),
    V('missing moov logged through an attribute that does not exist (fix d493f68 reverted)',
      [(f'{VALF}/init_segment.py', "            self.log.error(msg)\n            return None\n        self.validate_moov(moov)", "            self.logging.error(msg)\n            return None\n        self.validate_moov(moov)")],
      'R18.7', 'InitSegment.validate'),
    V('descriptor child elements cannot reset their errors (fix 6482552 reverted)',
      [(f'{VALF}/descriptor_element.py', "    def reset_errors(self) -> None:\n        self.elt.reset()\n        for child in self.children:\n            child.reset_errors()\n\n", "")],
      'R18.8', 'DescriptorElement'),
    V('event payload elements are no longer DashElements and lack get_errors',
      [(f'{VALF}/events.py', "class Scte35EventElement(DashElement):\n    def __init__(self, elt, parent: DashElement, schemeIdUri: str) -> None:\n        super().__init__(elt, parent)\n",
        "class Scte35EventElement:\n    xmlNamespaces = DashElement.xmlNamespaces\n\n    def __init__(self, elt, parent: DashElement, schemeIdUri: str) -> None:\n        self.parent = parent\n")],
      'R18.8', 'Scte35EventElement'),
    V('neutral: descriptor child elements reset through a helper loop',
      [(f'{VALF}/descriptor_element.py', "        self.elt.reset()\n        for child in self.children:\n            child.reset_errors()\n", "        self.elt.reset()\n        for sub in list(self.children):\n            sub.reset_errors()\n")], None),
    V('neutral: missing moov logged at warning level',
      [(f'{VALF}/init_segment.py', "            self.log.error(msg)\n            return None\n        self.validate_moov(moov)", "            self.log.warning(msg)\n            return None\n        self.validate_moov(moov)")], None),
]

VARIANTS['C17'] += [
    V('stream replaced without flushing the deletion (fix 4847401 reverted)',
      [('dashlive/server/requesthandler/streams.py', "            models.db.session.delete(st)\n            # the old row has to be gone before a stream with the same\n            # directory is inserted\n            models.db.session.flush()\n",
        "            models.db.session.delete(st)\n")], 'R17.6', 'add_stream'),
    V('neutral: old stream deleted with its own commit',
      [('dashlive/server/requesthandler/streams.py', "            models.db.session.delete(st)\n            # the old row has to be gone before a stream with the same\n            # directory is inserted\n            models.db.session.flush()\n",
        "            st.delete(commit=True)\n")], None),
]

VARIANTS['C16'] += [
    V('minBufferTime assigned only when a timing reference exists',
      [('dashlive/server/requesthandler/manifest_context.py', "        self.minBufferTime = datetime.timedelta(seconds=1.5)\n        self.manifest = manifest\n",
        "        self.manifest = manifest\n        if stream is not None and stream.timing_reference is not None:\n            self.minBufferTime = datetime.timedelta(seconds=1.5)\n")],
      'R16.11', 'mpd.minBufferTime'),
    V('neutral: profiles assigned in both arms',
      [('dashlive/server/requesthandler/manifest_context.py', "        self.profiles = [primary_profiles[options.mode]]\n",
        "        if options.mode == 'live':\n            self.profiles = [primary_profiles['live']]\n        else:\n            self.profiles = [primary_profiles[options.mode]]\n")], None),
]

VARIANTS['C15'] += [
    V('check side signs the origin after the salt (order differs from the issue side)',
      [('dashlive/server/requesthandler/csrf.py', "        sig.update(bytes(service, 'utf-8'))\n        if strict_origin:\n            sig.update(bytes(origin, 'utf-8'))\n        # logging.debug(\"check_csrf Referer: {}\".format(flask.request.headers['Referer']))\n        sig.update(bytes(salt, 'utf-8'))\n",
        "        sig.update(bytes(service, 'utf-8'))\n        sig.update(bytes(salt, 'utf-8'))\n        if strict_origin:\n            sig.update(bytes(origin, 'utf-8'))\n")],
      'R15.4', 'CsrfProtection.check'),
    V('neutral: check side feeds the signature parts from a conditional tuple',
      [('dashlive/server/requesthandler/csrf.py', "        sig.update(bytes(service, 'utf-8'))\n        if strict_origin:\n            sig.update(bytes(origin, 'utf-8'))\n        # logging.debug(\"check_csrf Referer: {}\".format(flask.request.headers['Referer']))\n        sig.update(bytes(salt, 'utf-8'))\n",
        "        for part in ((service, origin, salt) if strict_origin else (service, salt)):\n            sig.update(bytes(part, 'utf-8'))\n")], None),
]

VARIANTS['C08'] += [
    V('refreshes counted over an elapsed time taken before the zero-elapsed back-off',
      [('dashlive/mpeg/dash/timing.py', "        if self.elapsedTime.total_seconds() == 0:\n", "        elapsed_secs = self.elapsedTime.total_seconds()\n        if self.elapsedTime.total_seconds() == 0:\n"),
       ('dashlive/mpeg/dash/timing.py', "            num_refreshes = int(\n                self.elapsedTime.total_seconds() // self.minimumUpdatePeriod)", "            num_refreshes = int(elapsed_secs // self.minimumUpdatePeriod)")],
      'R08.6', 'calculate_live_params'),
    V('neutral: elapsed seconds named once, after the zero-elapsed back-off',
      [('dashlive/mpeg/dash/timing.py', "        if self.elapsedTime.total_seconds() < self.timeShiftBufferDepth:\n            self.timeShiftBufferDepth = int(self.elapsedTime.total_seconds())", "        elapsed_secs = self.elapsedTime.total_seconds()\n        if elapsed_secs < self.timeShiftBufferDepth:\n            self.timeShiftBufferDepth = int(elapsed_secs)"),
       ('dashlive/mpeg/dash/timing.py', "            num_refreshes = int(\n                self.elapsedTime.total_seconds() // self.minimumUpdatePeriod)", "            num_refreshes = int(elapsed_secs // self.minimumUpdatePeriod)")], None),
]

VARIANTS['C17'] += [
    V('unused adaptation sets collected by track id, deleted by primary key',
      [('dashlive/server/requesthandler/multi_period_streams.py', "    for trk in period.adaptation_sets:\n        unused_tracks.add(trk.pk)\n", "    for trk in period.adaptation_sets:\n        unused_tracks.add(trk.track_id)\n"),
       ('dashlive/server/requesthandler/multi_period_streams.py', "            unused_tracks.remove(adp.pk)\n", "            unused_tracks.remove(adp.track_id)\n")],
      'R17.7', 'process_period'),
    V('neutral: unused adaptation sets collected with a set comprehension',
      [('dashlive/server/requesthandler/multi_period_streams.py', "    unused_tracks: set[int] = set()\n    for trk in period.adaptation_sets:\n        unused_tracks.add(trk.pk)\n", "    unused_tracks: set[int] = {trk.pk for trk in period.adaptation_sets}\n")], None),
]

VARIANTS['C05'] += [
    V('reference duration converted through the float helper',
      [('dashlive/mpeg/dash/reference.py', "        return self.media_duration * timescale // self.timescale\n", "        return self.media_duration * timescale / self.timescale\n")],
      'R05.7', 'media_duration_using_timescale'),
    V('neutral: reference duration converted in two integer steps',
      [('dashlive/mpeg/dash/reference.py', "        return self.media_duration * timescale // self.timescale\n", "        scaled = self.media_duration * timescale\n        return scaled // self.timescale\n")], None),
]

VARIANTS['C04'] += [
    V('segment reference flushes the writer of the enclosing sidx box',
      [('dashlive/mpeg/mp4.py', "    def encode(self, dest):\n        w = FieldWriter(self, dest)\n        w.writebits(1, 'ref_type')\n        w.writebits(31, 'ref_size')",
        "    def encode(self, w):\n        w.writebits(1, 'ref_type', self.ref_type)\n        w.writebits(31, 'ref_size', self.ref_size)")],
      'R04.7', 'SegmentReference.encode'),
    V('neutral: segment reference names its writer differently',
      [('dashlive/mpeg/mp4.py', "    def encode(self, dest):\n        w = FieldWriter(self, dest)\n        w.writebits(1, 'ref_type')\n        w.writebits(31, 'ref_size')\n        w.writebits(32, 'duration')\n        w.writebits(1, 'starts_with_SAP')\n        w.writebits(3, 'SAP_type')\n        w.writebits(28, 'SAP_delta_time')\n        w.done()",
        "    def encode(self, dest):\n        bits = FieldWriter(self, dest)\n        bits.writebits(1, 'ref_type')\n        bits.writebits(31, 'ref_size')\n        bits.writebits(32, 'duration')\n        bits.writebits(1, 'starts_with_SAP')\n        bits.writebits(3, 'SAP_type')\n        bits.writebits(28, 'SAP_delta_time')\n        bits.done()")], None),
]

VARIANTS['C18'] += [
    V('next decode time carried over only from segments fetched in this pass',
      [('dashlive/mpeg/dash/validator/representation.py', "            if not seg.validated:\n                await seg.validate()\n            self.log.debug('%s: Segment %s decode time span: %s -> %s', self.id,\n                           seg.name, seg.decode_time, seg.next_decode_time)\n            next_decode_time = seg.next_decode_time\n",
        "            if not seg.validated:\n                await seg.validate()\n                next_decode_time = seg.next_decode_time\n            self.log.debug('%s: Segment %s decode time span: %s -> %s', self.id,\n                           seg.name, seg.decode_time, seg.next_decode_time)\n")],
      'R18.9', 'Representation.validate'),
    V('neutral: next sequence number as a conditional expression',
      [('dashlive/mpeg/dash/validator/representation.py', "            if seg.seg_num is None:\n                next_seg_num = None\n            else:\n                next_seg_num = seg.seg_num + 1\n",
        "            next_seg_num = None if seg.seg_num is None else seg.seg_num + 1\n")], None),
]

VARIANTS['C04'] += [
    V('_invalidate skips a falsy cache (an empty cached payload survives an edit)',
      [(MP4F, "        if self._encoded is not None:\n            self._encoded = None\n            if self.parent:\n                self.parent._invalidate()\n",
        "        if self._encoded:\n            self._encoded = None\n            if self.parent:\n                self.parent._invalidate()\n")],
      'R04.3', 'Mp4Atom._invalidate'),
    V('_invalidate clears without telling the parent',
      [(MP4F, "            self._encoded = None\n            if self.parent:\n                self.parent._invalidate()\n", "            self._encoded = None\n")],
      'R04.3', 'Mp4Atom._invalidate'),
    V('neutral: _invalidate as an early return with the parent in a local',
      [(MP4F, "        if self._encoded is not None:\n            self._encoded = None\n            if self.parent:\n                self.parent._invalidate()\n",
        "        if self._encoded is None:\n            return\n        self._encoded = None\n        parent = self.parent\n        if parent is not None:\n            parent._invalidate()\n")],
      None),
]

CONTF = 'dashlive/server/options/container.py'
VARIANTS['C07'] += [
    V('clone rebuilds a group container only when it is overridden',
      [(CONTF, "            if isinstance(value, OptionsContainer) or isinstance(ours, OptionsContainer):\n                if ours is None:",
        "            if key in kwargs and (isinstance(value, OptionsContainer) or isinstance(ours, OptionsContainer)):\n                if ours is None:")],
      'R07.6', 'OptionsContainer.clone'),
    V('neutral: clone tests the group container through renamed locals',
      [(CONTF, "            ours = getattr(self, key)\n            value = kwargs.get(key, ours)\n            if isinstance(value, OptionsContainer) or isinstance(ours, OptionsContainer):\n                if ours is None:\n                    ours = {}\n                elif isinstance(ours, OptionsContainer):\n                    ours = ours.toJSON()",
        "            current = getattr(self, key)\n            value = kwargs.get(key, current)\n            is_group = isinstance(current, OptionsContainer) or isinstance(value, OptionsContainer)\n            if is_group:\n                ours = {}\n                if isinstance(current, OptionsContainer):\n                    ours = current.toJSON()\n                elif current is not None:\n                    ours = current")],
      None),
]

VARIANTS['C08'] += [
    V('start=year backs off in the first minute of every day',
      [('dashlive/mpeg/dash/timing.py', "                month=1, day=1, hour=0, minute=0, second=0, microsecond=0)\n            if (self.publishTime - self.availabilityStartTime) < one_day:",
        "                month=1, day=1, hour=0, minute=0, second=0, microsecond=0)\n            if self.publishTime.hour == 0 and self.publishTime.minute == 0:")],
      'R08.9', 'calculate_live_params'),
    V('neutral: start=year back-off measured through a local',
      [('dashlive/mpeg/dash/timing.py', "                month=1, day=1, hour=0, minute=0, second=0, microsecond=0)\n            if (self.publishTime - self.availabilityStartTime) < one_day:",
        "                month=1, day=1, hour=0, minute=0, second=0, microsecond=0)\n            since_new_year = self.publishTime - self.availabilityStartTime\n            if since_new_year < one_day:")],
      None),
]

PRF = 'dashlive/drm/playready.py'
VARIANTS['C10'] += [
    V('PlayReady pssh lists byte-reversed key ids',
      [(PRF, "        keys = [KeyMaterial(k).raw for k in keys]\n        return mp4.ContentProtectionSpecificBox(\n            version=1,",
        "        keys = [KeyMaterial(k).raw[::-1] for k in keys]\n        return mp4.ContentProtectionSpecificBox(\n            version=1,")],
      'R10.7', 'generate_pssh'),
    V('neutral: PlayReady pssh key ids from the key tuples',
      [(PRF, "        if isinstance(keys, dict):\n            keys = list(keys.keys())\n        keys = [KeyMaterial(k).raw for k in keys]\n        return mp4.ContentProtectionSpecificBox(\n            version=1, flags=0, system_id=PlayReady.RAW_SYSTEM_ID,\n            key_ids=keys, data=pro)",
        "        if isinstance(keys, dict):\n            keys = list(keys.keys())\n        raw_kids = [KeyMaterial(kid).raw for kid in keys]\n        return mp4.ContentProtectionSpecificBox(\n            version=1, flags=0, system_id=PlayReady.RAW_SYSTEM_ID,\n            key_ids=raw_kids, data=pro)")],
      None),
]

CKF = 'dashlive/drm/clearkey.py'
DCF = 'dashlive/server/requesthandler/drm_context.py'
_ck_falsy = (CKF, "        if locations is None:\n            locations = {DrmLocation.CENC, DrmLocation.MOOV}", "        if not locations:\n            locations = {DrmLocation.CENC, DrmLocation.MOOV}")
_dc_filter = (DCF, "            rv.append((drm_name, drm, locations,))", "            if drm_name != 'playready':\n                locations = locations - {'pro'}\n            rv.append((drm_name, drm, locations,))")
for _p in ('C10', 'C11'):
    VARIANTS[_p] += [
        V('ClearKey defaults a falsy location set and the context can filter a requested set empty', [_ck_falsy, _dc_filter],
          'R10.3' if _p == 'C10' else 'R11.1', 'ClearKey.generate_manifest_context'),
        V('neutral: ClearKey defaults a falsy location set (no caller can pass an empty one)', [_ck_falsy], None),
        V('neutral: the context filters pro out of the locations of other systems (defaults stay keyed on None)', [_dc_filter], None),
    ]

MCTX = 'dashlive/server/requesthandler/manifest_context.py'
VARIANTS['C12'] += [
    V('pass counter advanced when the index drops below the previous one (never with one stored period)',
      [(MCTX, "            index = (index + 1) % len(periods)\n            if index == 0:\n                num_loops += 1",
        "            prev_index = index\n            index = (index + 1) % len(periods)\n            if index < prev_index:\n                num_loops += 1")],
      'R12.4', 'create_all_live_periods'),
    V('neutral: pass counter advanced when the index does not grow',
      [(MCTX, "            index = (index + 1) % len(periods)\n            if index == 0:\n                num_loops += 1",
        "            prev_index = index\n            index = (index + 1) % len(periods)\n            if index <= prev_index:\n                num_loops += 1")],
      None),
    V('neutral: index wraps by an explicit reset',
      [(MCTX, "            index = (index + 1) % len(periods)\n            if index == 0:\n                num_loops += 1",
        "            index += 1\n            if index >= len(periods):\n                index = 0\n                num_loops += 1")],
      None),
]

CSRFF = 'dashlive/server/requesthandler/csrf.py'
TOKF = 'dashlive/server/models/token.py'
_csrf_cut = (CSRFF, "        token = str(urllib.parse.unquote(csrf_token))\n", "        token = str(urllib.parse.unquote(csrf_token))[:Token.MAX_TOKEN_LENGTH]\n")
_tok_exact = (TOKF, "    MAX_TOKEN_LENGTH: ClassVar[int] = max(\n        36, 2 + CSRF_SALT_LENGTH + (3 * hashlib.sha1().digest_size // 2))",
              "    MAX_TOKEN_LENGTH: ClassVar[int] = max(\n        36, CSRF_SALT_LENGTH + 3 + 4 * ((hashlib.sha1().digest_size + 2) // 3))")
VARIANTS['C15'] += [
    V('submitted token cut to a maximum length that is exactly the genuine length', [_csrf_cut, _tok_exact], 'R15.4', 'CsrfProtection.check'),
    V('neutral: submitted token cut to a maximum length beyond the genuine length', [_csrf_cut], None),
    V('neutral: MAX_TOKEN_LENGTH computed exactly (nothing is cut to it)', [_tok_exact], None),
]

FRF = 'dashlive/utils/fio/field_reader.py'
VARIANTS['C16'] += [
    V('zero-terminated string loop compares bytes (never ends on an empty read)',
      [(FRF, "            while ord(d) != 0:", "            while d != b'\\0':")], 'R16.12', 'get'),
    V('neutral: zero-terminated string loop tests the ordinal for truth',
      [(FRF, "            while ord(d) != 0:", "            while ord(d):")], None),
]

MMF = 'dashlive/server/requesthandler/media_management.py'
VARIANTS['C17'] += [
    V('media file removed with a bulk DELETE (error rows, key links and the blob stay behind)',
      [(MMF, "            models.db.session.delete(mf)\n            models.db.session.commit()\n            result[\"deleted\"] = mfid",
        "            models.db.session.execute(models.db.delete(models.MediaFile).filter_by(pk=mf.pk))\n            models.db.session.commit()\n            result[\"deleted\"] = mfid")],
      'R17.8', 'MediaInfo'),
    V('neutral: expired tokens pruned through the query interface',
      [(TOKF, "        stmt = delete(cls).where(cls.expires < now)\n        session.execute(stmt)\n", "        session.query(cls).filter(cls.expires < now).delete()\n")], None),
]

VREP = 'dashlive/mpeg/dash/validator/representation.py'
_carry_validated = (VREP, "                self.id, self.init_segment.atoms is not None)\n        self.media_segments = []\n",
                    "                self.id, self.init_segment.atoms is not None)\n        self._validated = prev._validated\n        self.media_segments = []\n")
_guard_validated = (VREP, "        if ValidationFlag.REPRESENTATION in self.options.verify:\n            futures.add(super().validate())\n            futures.add(self.validate_self())\n",
                    "        if ValidationFlag.REPRESENTATION in self.options.verify and not self._validated:\n            futures.add(super().validate())\n            futures.add(self.validate_self())\n")
VARIANTS['C18'] += [
    V('representation checks skipped once validated, and the flag survives a refresh', [_carry_validated, _guard_validated],
      'R18.10', 'Representation.validate'),
    V('neutral: the validated flag survives a refresh (nothing is guarded by it)', [_carry_validated], None),
    V('neutral: representation checks skipped when this object was validated before (flag not carried)', [_guard_validated], None),
]

VARIANTS['C16'] += [
    V('raw FieldReader reads return short data again (fix 5c9977d reverted): the pssh key id loop spins on nothing',
      [(FRF, "            if len(value) != size:\n                raise ValueError(\n                    f'{self.name}: expected {size} bytes for {field} but only {len(value)} are available')\n", "")],
      'R16.13', 'ContentProtectionSpecificBox.parse'),
    V('saiz per-sample sizes appended from a raw read',
      [(MP4F, "                rv[\"sample_info_sizes\"].append(\n                    struct.unpack('B', src.read(1))[0])", "                rv[\"sample_info_sizes\"].append(src.read(1))")],
      'R16.13', 'SampleAuxiliaryInformationSizesBox.parse'),
    V('neutral: pssh key ids read through a local',
      [(MP4F, "                rv[\"key_ids\"].append(r.get(16, 'kid'))", "                kid = r.get(16, 'kid')\n                rv[\"key_ids\"].append(kid)")], None),
]

VARIANTS['C16'] += [
    V('period.baseURL rewritten for every https request (fix 792946a reverted)',
      [(MCTX, "        if opts.useBaseUrls and is_https_request():\n", "        if is_https_request():\n")], 'R16.14', 'create_period'),
    V('neutral: https test first, BaseURL option second',
      [(MCTX, "        if opts.useBaseUrls and is_https_request():\n", "        if is_https_request() and opts.useBaseUrls:\n")], None),
]

REPF2 = 'dashlive/mpeg/dash/representation.py'
VARIANTS['C06'] += [
    V('neutral: earlier fragments named before their durations are summed',
      [(MRQ, "            base_media_decode_time = sum([\n                seg.duration for seg in representation.segments[1:mod_segment]])",
        "            earlier = representation.segments[1:mod_segment]\n            base_media_decode_time = sum(seg.duration for seg in earlier)")], None),
    V('synthesised tfdt counts the init segment as a fragment',
      [(MRQ, "                seg.duration for seg in representation.segments[1:mod_segment]])", "                seg.duration for seg in representation.segments[0:mod_segment]])")],
      'R06.10', 'generate_media_segment'),
    V('neutral: listed duration under another name',
      [(REPF2, "            elif duration != s_node.duration:\n", "            elif s_node.duration != duration:\n")], None),
]
VARIANTS['C13'] += [
    V('neutral: body cut to the range unless no range was given',
      [(MRQ, "            if start is not None:\n                data = data[start:end + 1]\n", "            if start is None:\n                pass\n            else:\n                data = data[start:end + 1]\n")], None),
]
VARIANTS['C14'] += [
    V('neutral: presence of the splice time in a local',
      [('dashlive/scte35/splice_time.py', "        if self.pts is None:\n            w.write(1, 'time_specified_flag', value=0)\n",
        "        has_pts = self.pts is not None\n        if not has_pts:\n            w.write(1, 'time_specified_flag', value=0)\n")], None),
    V('splice time present when the pts is true',
      [('dashlive/scte35/splice_time.py', "        if self.pts is None:\n            w.write(1, 'time_specified_flag', value=0)\n", "        if not self.pts:\n            w.write(1, 'time_specified_flag', value=0)\n")],
      'R14.10', 'SpliceTime.encode'),
]
VARIANTS['C19'] += [
    V('neutral: days, seconds and microseconds of a delta read into locals',
      [('dashlive/utils/date_time.py', "    result += timescale * delta.seconds\n", "    secs_of_day = delta.seconds\n    result += timescale * secs_of_day\n")], None),
]

# ---------------------------------------------------------------- a regression made in refactored code
# Each of these is one of the stored behaviour-preserving refactorings (neutral/<set>/refactorN.diff, applied
# first) plus ONE breaking edit inside the code the refactoring introduced.  The refactoring alone must stay
# quiet (it is a neutral variant of its own); with the edit the rule must still fire - this is what keeps the
# normal form (E11) honest: what it rewrites it must not hide.
import os as _os
_NEUTRAL = _os.path.join(_os.path.dirname(_os.path.dirname(_os.path.abspath(__file__))), 'neutral')


def _layered(prop, name, patch, edits, rule, construct=''):
    VARIANTS[prop].append(V(f'{name} (in refactored code, {patch})', edits, rule, construct,
                            patch=_os.path.join(_NEUTRAL, patch)))


_layered('C12', 'period helper no longer compares the parent stream', 'RE12/refactor2.diff',
         [(MRQ, "        if period is None or period.parent_pk != current_mps.pk:\n            logging.warning('Period not found: mps=%s ppk=%d', mps_name, ppk)\n            return None\n",
           "        if period is None:\n            logging.warning('Period not found: mps=%s ppk=%d', mps_name, ppk)\n            return None\n")],
         'R12.1')
_layered('C06', 'running end time replaced, not advanced', 'RE06/refactor1.diff',
         [(REPF2, "                segment_end_time += seg.duration\n", "                segment_end_time = seg.duration\n")], 'R06.4')
_layered('C06', 'start taken before the tfdt is applied', 'RE06/refactor1.diff',
         [(REPF2, "                if atom.traf.find_child('tfdt') is not None:\n                    # an explicit decode time overrides the running total\n                    segment_end_time = atom.traf.tfdt.base_media_decode_time\n                segment_start_time = segment_end_time\n",
           "                segment_start_time = segment_end_time\n                if atom.traf.find_child('tfdt') is not None:\n                    # an explicit decode time overrides the running total\n                    segment_end_time = atom.traf.tfdt.base_media_decode_time\n")], 'R06.4')
_layered('C16', 'time window of a manifest error has no end', 'RE16/refactor3.diff',
         [(f'{RH}/manifest_requests.py', "        return window_start <= now <= window_end\n", "        return window_start <= now\n")], 'R16.7')
_layered('C16', 'manifest error selected by update count or later', 'RE16/refactor3.diff',
         [(f'{RH}/manifest_requests.py', "            return pos == options.updateCount\n", "            return pos <= options.updateCount\n")], 'R16.7')
_layered('C16', 'failure limit helper never resets its counter', 'RE16/refactor3.diff',
         [(f'{RH}/base.py', "                self.reset_error_counter(usage, code)\n                return True\n", "                return True\n")], 'R16.7')
_layered('C19', 'compiled offset pattern not anchored', 'RE08/refactor3.diff',
         [(DT, "zero_utc_offset_re = re.compile('[+-]00:00$')\n", "zero_utc_offset_re = re.compile('[+-]00:00')\n")], 'R19.3')
_layered('C10', 'protection boxes appended with the first key instead of the default key', 'RE10/refactor1.diff',
         [(MRQ, "            atom.moov.append_child(create_pssh(representation.default_kid))\n", "            atom.moov.append_child(create_pssh(representation.kids[0]))\n")], '*')
_layered('C04', 'box size measured from the start of the stream', 'RE03/refactor1.diff',
         [(MP4, "        self.size = end - self.position\n", "        self.size = end\n")], '*')
_layered('C04', 'saio offsets read with the 64 bit layout for version 0', 'RE03/refactor2.diff',
         [(MP4, "        entry = struct.Struct('>I' if rv[\"version\"] == 0 else '>Q')\n", "        entry = struct.Struct('>I' if rv[\"version\"] != 0 else '>Q')\n")], '*')
_layered('C03', 'first cenc sample measured from the wrong base', 'RE03/refactor2.diff',
         [(MP4, "        return senc.position + senc.samples[0].offset - base\n", "        return senc.position + senc.samples[0].offset + base\n")], '*')

VARIANTS['C03'] += [
    V('saio offset adds the base instead of subtracting it',
      [(MP4, "        return senc_sample_pos - base_data_offset\n", "        return senc_sample_pos + base_data_offset\n")],
      'R03.2', 'find_first_cenc_sample'),
    V('saio offset always relative to the moof, whatever base the tfhd declares',
      [(MP4, "        if tfhd is not None:\n            base_data_offset = tfhd.base_data_offset\n        if base_data_offset is None:\n            moof = self.find_atom('moof')\n",
        "        if base_data_offset is None:\n            moof = self.find_atom('moof')\n")],
      'R03.2', 'find_first_cenc_sample'),
    V('saio offset skips the first senc entry offset',
      [(MP4, "        senc_sample_pos = senc.position + senc.samples[0].offset\n", "        senc_sample_pos = senc.position\n")],
      'R03.2', 'find_first_cenc_sample'),
    V('neutral: saio base chosen with a conditional expression',
      [(MP4, "        senc_sample_pos = senc.position + senc.samples[0].offset\n        return senc_sample_pos - base_data_offset\n",
        "        first = senc.samples[0]\n        return (senc.position - base_data_offset) + first.offset\n")], None),
]

VARIANTS['C04'] += [
    V('descriptor size groups written least significant first',
      [(MP4, "            sizes.insert(0, size & 0x7f)\n            size = size >> 7\n        sizes.insert(0, size & 0x7f)\n",
        "            sizes.append(size & 0x7f)\n            size = size >> 7\n        sizes.append(size & 0x7f)\n")], 'R04.9', 'Descriptor.encode'),
    V('descriptor size continuation flag on the last byte instead of the others',
      [(MP4, "            flag = 0x80 if sizes else 0x00\n", "            flag = 0x00 if sizes else 0x80\n")], 'R04.9', 'Descriptor.encode'),
    V('descriptor size split at eight bits',
      [(MP4, "        while size > 0x7f:\n            sizes.insert(0, size & 0x7f)\n", "        while size > 0xff:\n            sizes.insert(0, size & 0x7f)\n")],
      'R04.9', 'Descriptor.encode'),
    V('descriptor header reader accumulates least significant first',
      [(MP4, "            size = (size << 7) + (b & 0x7f)\n", "            size = size + ((b & 0x7f) << (7 * (header_size - 2)))\n")], 'R04.9', 'Descriptor.encode'),
    V('neutral: descriptor size groups collected and then reversed',
      [(MP4, "            sizes.insert(0, size & 0x7f)\n            size = size >> 7\n        sizes.insert(0, size & 0x7f)\n",
        "            sizes.append(size & 0x7f)\n            size = size >> 7\n        sizes.append(size & 0x7f)\n        sizes.reverse()\n")], None),
    V('neutral: descriptor size bytes built by a comprehension over shifts',
      [(MP4, "        while sizes:\n            a = sizes.pop(0)\n            flag = 0x80 if sizes else 0x00\n            d.write('B', 'size', a + flag)\n",
        "        last = len(sizes) - 1\n        for idx, a in enumerate(sizes):\n            d.write('B', 'size', a if idx == last else a | 0x80)\n")], None),
]

VARIANTS['C06'] += [
    V('media duration taken from the running decode time',
      [(REPF2, "            rv.mediaDuration = 0\n            for seg in rv.segments[1:]:\n                rv.mediaDuration += seg.duration\n",
        "            rv.mediaDuration = segment_end_time\n")], 'R06.12', 'Representation.load'),
    V('constructor sums the durations from the second fragment',
      [(REPF2, "            self.mediaDuration = sum([s.duration for s in self.segments[1:]])\n",
        "            self.mediaDuration = sum([s.duration for s in self.segments[2:]])\n")], 'R06.12', 'Representation.__init__'),
    V('neutral: media duration summed into a local first',
      [(REPF2, "            rv.mediaDuration = 0\n            for seg in rv.segments[1:]:\n                rv.mediaDuration += seg.duration\n",
        "            fragments = rv.segments[1:]\n            total = 0\n            for frag in fragments:\n                total += frag.duration\n            rv.mediaDuration = total\n")], None),
    V('neutral: media duration by sum() over a generator',
      [(REPF2, "            rv.mediaDuration = 0\n            for seg in rv.segments[1:]:\n                rv.mediaDuration += seg.duration\n",
        "            rv.mediaDuration = sum(frag.duration for frag in rv.segments[1:])\n")], None),
]

MOF = 'dashlive/server/options/manifest_options.py'
_RELABEL = [(MOF, "from dashlive.utils.date_time import from_isodatetime, to_iso_datetime\n",
             "from dashlive.utils.date_time import from_isodatetime, to_iso_datetime\nfrom dashlive.utils.timezone import UTC\n"),
            (MOF, "        raise err\n    return value\n",
             "        raise err\n    if isinstance(value, datetime.datetime):\n        value = value.replace(tzinfo=UTC())\n    return value\n")]
_RELABEL_OK = [_RELABEL[0],
               (MOF, "        raise err\n    return value\n",
                "        raise err\n    if isinstance(value, datetime.datetime) and value.tzinfo is None:\n        value = value.replace(tzinfo=UTC())\n    return value\n")]
VARIANTS['C08'] += [
    V('explicit start relabelled as UTC whatever offset it carries', _RELABEL, 'R08.10', 'ast_from_string'),
    V('neutral: a start without a zone is taken as UTC', _RELABEL_OK, None),
]
VARIANTS['C19'] += [
    V('explicit start relabelled as UTC whatever offset it carries', _RELABEL, 'R19.7', 'ast_from_string'),
    V('neutral: a start without a zone is taken as UTC', _RELABEL_OK, None),
    V('parsed time of day relabelled after a %z format',
      [(DT, '"%H:%M:%SZ").replace(tzinfo=UTC()).time()', '"%H:%M:%S%z").replace(tzinfo=UTC()).time()')], 'R19.7', 'from_isodatetime'),
]

VARIANTS['C19'] += [
    V('fraction digits stripped of zeros on both sides before padding',
      [(DT, "kwargs['microsecond'] = int(frac[:6].ljust(6, '0'), 10)", "kwargs['microsecond'] = int(frac[:6].strip('0').ljust(6, '0'), 10)")],
      'R19.2', 'from_isodatetime'),
    V('fraction digits padded on the left',
      [(DT, "kwargs['microsecond'] = int(frac[:6].ljust(6, '0'), 10)", "kwargs['microsecond'] = int(frac[:6].zfill(6), 10)")],
      'R19.2', 'from_isodatetime'),
    V('fraction cut to milliseconds',
      [(DT, "kwargs['microsecond'] = int(frac[:6].ljust(6, '0'), 10)", "kwargs['microsecond'] = int(frac[:3].ljust(6, '0'), 10)")],
      'R19.2', 'from_isodatetime'),
    V('neutral: trailing zeros dropped before the fraction is padded again',
      [(DT, "kwargs['microsecond'] = int(frac[:6].ljust(6, '0'), 10)", "kwargs['microsecond'] = int(frac[:6].rstrip('0').ljust(6, '0'), 10)")],
      None),
    V('neutral: fraction padded by appending zeros and cutting',
      [(DT, "kwargs['microsecond'] = int(frac[:6].ljust(6, '0'), 10)", "digits = (frac + '000000')[:6]\n                    kwargs['microsecond'] = int(digits, 10)")],
      None),
]

VARIANTS['C09'] += [
    V('PatchLocation completed with the manifest parameter set',
      [(MCTX, "            if self.cgi_params.patch:\n                patch_loc += objects.dict_to_cgi_params(self.cgi_params.patch)\n",
        "            if self.cgi_params.manifest:\n                patch_loc += objects.dict_to_cgi_params(self.cgi_params.manifest)\n")],
      'R09.6', 'ManifestContext'),
    V('Location completed with the patch parameter set',
      [(MCTX, "            locationURL = locationURL + objects.dict_to_cgi_params(self.cgi_params.manifest)\n",
        "            locationURL = locationURL + objects.dict_to_cgi_params(self.cgi_params.patch)\n")],
      'R09.6', 'ManifestContext'),
    V('neutral: patch parameter set named before it is used',
      [(MCTX, "            if self.cgi_params.patch:\n                patch_loc += objects.dict_to_cgi_params(self.cgi_params.patch)\n",
        "            patch_params = self.cgi_params.patch\n            if patch_params:\n                patch_loc += objects.dict_to_cgi_params(patch_params)\n")], None),
]

VARIANTS['C05'] += [
    V('representation read once before a media file is indexed on demand',
      [(MCTX, "                for mf in adp.media_files(encrypted=self.options.encrypted):\n                    if mf.representation is None:\n                        mf.parse_media_file()\n                    if mf.representation is None:\n                        continue\n                    adp_set.representations.append(mf.representation)\n",
        "                for mf in adp.media_files(encrypted=self.options.encrypted):\n                    rep = mf.representation\n                    if rep is None:\n                        mf.parse_media_file()\n                    if rep is None:\n                        continue\n                    adp_set.representations.append(rep)\n")],
      'R05.10', 'create_period'),
    V('neutral: representation read again after a media file is indexed on demand',
      [(MCTX, "                for mf in adp.media_files(encrypted=self.options.encrypted):\n                    if mf.representation is None:\n                        mf.parse_media_file()\n                    if mf.representation is None:\n                        continue\n                    adp_set.representations.append(mf.representation)\n",
        "                for mf in adp.media_files(encrypted=self.options.encrypted):\n                    rep = mf.representation\n                    if rep is None:\n                        mf.parse_media_file()\n                        rep = mf.representation\n                    if rep is None:\n                        continue\n                    adp_set.representations.append(rep)\n")],
      None),
]

STRMF = 'dashlive/server/requesthandler/streams.py'
VARIANTS['C17'] += [
    V('stream to replace looked up under the raw directory field',
      [(STRMF, "        st = models.Stream.get(directory=data['directory'])\n", "        st = models.Stream.get(directory=params.get('directory'))\n")],
      'R17.10', 'add_stream'),
    V('neutral: directory of the new stream named before the lookup',
      [(STRMF, "        st = models.Stream.get(directory=data['directory'])\n", "        directory = data['directory']\n        st = models.Stream.get(directory=directory)\n")],
      None),
]

VMS = 'dashlive/mpeg/dash/validator/media_segment.py'
VARIANTS['C18'] += [
    V('decode time checked against the tolerance on one side only',
      [(VMS, "            self.elt.check_almost_equal(\n                self.expected_decode_time,\n                self.decode_time,\n                delta=self.tolerance,\n                msg=msg)\n",
        "            self.elt.check_less_than_or_equal(tc_diff, self.tolerance, msg=msg)\n")],
      'R18.12', 'validate_segment'),
    V('neutral: decode time checked through the absolute difference',
      [(VMS, "            self.elt.check_almost_equal(\n                self.expected_decode_time,\n                self.decode_time,\n                delta=self.tolerance,\n                msg=msg)\n",
        "            self.elt.check_less_than_or_equal(abs(tc_diff), self.tolerance, msg=msg)\n")],
      None),
]

VARIANTS['C17'] += [
    V('legacy prefix applied after the stream to replace was looked up',
      [(STRMF, "        if 'prefix' in params:\n            data['directory'] = params['prefix']\n        result = {}\n", "        result = {}\n"),
       (STRMF, "        st = models.Stream(**data)\n        st.add(commit=True)\n", "        if 'prefix' in params:\n            data['directory'] = params['prefix']\n        st = models.Stream(**data)\n        st.add(commit=True)\n")],
      'R17.10', 'add_stream'),
]

VARIANTS['C20'] += [
    V('seek from the end adds the window start instead of the argument',
      [(BR, "            self.pos = self.size + offset\n", "            self.pos = self.size + self.offset\n")], 'R20.8', 'seek'),
    V('relative seek replaces the position',
      [(BR, "        elif whence == io.SEEK_CUR:\n            self.pos += offset\n", "        elif whence == io.SEEK_CUR:\n            self.pos = offset\n")],
      'R20.8', 'seek'),
    V('seek from the end subtracts the argument',
      [(BR, "            self.pos = self.size + offset\n", "            self.pos = self.size - offset\n")], 'R20.8', 'seek'),
    V('neutral: seek from the end written argument first',
      [(BR, "            self.pos = self.size + offset\n", "            end = self.size\n            self.pos = offset + end\n")], None),
]

VARIANTS['C20'] += [
    V('read returns a text literal at the end of the window',
      [(BR, "            n = min(n, self.size - self.pos)\n            if n <= 0:\n                return b''\n", "            n = min(n, self.size - self.pos)\n            if n <= 0:\n                return ''\n")],
      'R20.9', 'read'),
]

VARIANTS['C16'] += [
    V('payload of an empty box peeked at',
      [(MP4, "                if sz == 0:\n                    encoded = b''\n                else:\n                    encoded = src.peek(sz)[:sz]\n                    if len(encoded) < sz:\n                        p: int = src.tell()\n                        assert p is not None\n                        encoded = src.read(sz)\n                        src.seek(p)\n",
        "                encoded = src.peek(sz)[:sz]\n                if len(encoded) < sz:\n                    p: int = src.tell()\n                    assert p is not None\n                    encoded = src.read(sz)\n                    src.seek(p)\n")],
      'R16.16', 'Mp4Atom.load'),
    V('neutral: payload peeked at unless it is empty',
      [(MP4, "                if sz == 0:\n                    encoded = b''\n                else:\n                    encoded = src.peek(sz)[:sz]\n",
        "                encoded = b''\n                if sz > 0:\n                    encoded = src.peek(sz)[:sz]\n"),
       (MP4, "                    if len(encoded) < sz:\n                        p: int = src.tell()\n                        assert p is not None\n                        encoded = src.read(sz)\n                        src.seek(p)\n",
        "                    if len(encoded) < sz:\n                        p: int = src.tell()\n                        encoded = src.read(sz)\n                        src.seek(p)\n")],
      None),
]

BSIG = 'dashlive/scte35/binarysignal.py'
_CHAIN = "        if self.splice_schedule is not None:\n            self.splice_command_type = 4\n        elif self.splice_insert is not None:\n            self.splice_command_type = 5\n        elif self.time_signal is not None:\n            self.splice_command_type = 6\n        else:\n            self.splice_command_type = 0\n"
VARIANTS['C14'] += [
    V('splice_null default overwritten by the loop that looks for a command',
      [(BSIG, _CHAIN, "        kind = 0\n        for kind, cmd in ((4, self.splice_schedule), (5, self.splice_insert), (6, self.time_signal)):\n            if cmd is not None:\n                break\n        self.splice_command_type = kind\n")],
      'R14.11', 'encode_fields'),
    V('neutral: command type found by a loop with an else branch for splice_null',
      [(BSIG, _CHAIN, "        for kind, cmd in ((4, self.splice_schedule), (5, self.splice_insert), (6, self.time_signal)):\n            if cmd is not None:\n                break\n        else:\n            kind = 0\n        self.splice_command_type = kind\n")],
      None),
]

VARIANTS['C11'] += [
    V('licence URL default_kid filled from the loop variable left over after the key loop',
      [('dashlive/drm/playready.py', "default_kid=default_keypair.KID.hex", "default_kid=keypair.KID.hex")],
      'R11.7', 'generate_wrmheader'),
]

VARIANTS['C04'] += [
    V('extended type of a uuid box not kept in the raw header',
      [(MP4, "            uuid_data = src.read(16)\n            buf.append(uuid_data)\n", "            uuid_data = src.read(16)\n")],
      'R04.10', 'Mp4Atom.parse'),
    V('64-bit size not kept in the raw header',
      [(MP4, "            size_ext = src.read(8)\n            buf.append(size_ext)\n", "            size_ext = src.read(8)\n")],
      'R04.10', 'Mp4Atom.parse'),
    V('neutral: raw header collected by concatenation',
      [(MP4, "            uuid_data = src.read(16)\n            buf.append(uuid_data)\n", "            uuid_data = src.read(16)\n            buf = buf + [uuid_data]\n")],
      None),
]

VARIANTS['C14'] += [
    V('splice_time without a pts written as the flag bit alone',
      [('dashlive/scte35/splice_time.py', "            w.write(1, 'time_specified_flag', value=0)\n            w.write(7, 'reserved', 0x7F)\n", "            w.write(1, 'time_specified_flag', value=0)\n"),
       ('dashlive/scte35/splice_time.py', "            r.get(7, 'reserved')\n            kwargs['pts'] = None\n", "            kwargs['pts'] = None\n")],
      'R14.12', 'SpliceTime'),
    V('splice_time reader skips six reserved bits after a clear flag',
      [('dashlive/scte35/splice_time.py', "            r.get(7, 'reserved')\n            kwargs['pts'] = None\n", "            r.get(6, 'reserved')\n            kwargs['pts'] = None\n")],
      'R14.1', 'SpliceTime'),
]

# ---- a regression made in round-seven refactorings (see _layered above)
REPB = 'dashlive/mpeg/dash/representation.py'
_layered('C20', 'bucket span runs to the end of the bucket', 'RF20/refactor2.diff',
         [(BR, "            stop = min(end - bucket, self.buffersize)\n", "            stop = self.buffersize\n")], 'R20.2')
_layered('C20', 'bucket span starts at the beginning of the bucket', 'RF20/refactor2.diff',
         [(BR, "            start = max(pos - bucket, 0)\n", "            start = 0\n")], 'R20.2')
_layered('C09', 'next loop starts where the previous segment ended', 'RF09/refactor2.diff',
         [(REPB, "                origin_time += ref_duration_tc\n                seg_start_tc = origin_time\n            else:\n                seg_start_tc += duration\n",
           "                origin_time += ref_duration_tc\n                seg_start_tc += duration\n            else:\n                seg_start_tc += duration\n")], 'R09.4')
_layered('C15', 'token signer leaves the service out of the signature', 'RF15/refactor1.diff',
         [(CSRFF, "        self.sig.update(bytes(service, 'utf-8'))\n", "")], 'R15.4')
_layered('C16', 'video requests consult the audio error list', 'RF16/refactor2.diff',
         [(MRQ, "        'video': 'videoErrors',\n", "        'video': 'audioErrors',\n")], 'R16.7')
_layered('C18', 'decode time check skipped when the expectation is 0', 'RF18/refactor1.diff',
         [(VMS, "        if self.expected_decode_time is None:\n            return\n", "        if not self.expected_decode_time:\n            return\n")], 'R18.4')
_layered('C14', 'listed event time advanced before the event is listed', 'RF14/refactor3.diff',
         [('dashlive/server/events/repeating_event_base.py',
           "        for idx in range(self.count):\n            yield {\n", "        for idx in range(self.count):\n            presentation_time += self.interval\n            yield {\n"),
          ('dashlive/server/events/repeating_event_base.py',
           "                'presentationTime': presentation_time,\n            }\n            presentation_time += self.interval\n", "                'presentationTime': presentation_time,\n            }\n")],
         'R14.5')
_layered('C04', 'ancestor walk stops after the box itself', 'RF04/refactor2.diff',
         [(MP4, "            if not atom.parent:\n                break\n            atom = atom.parent\n", "            break\n")], 'R04.3')
_layered('C07', 'video sets receive the audio parameter set', 'RF05/refactor1.diff',
         [(MCTX, "self.cgi_params.video)", "self.cgi_params.audio)")], 'R07.4')

VARIANTS['C13'] += [
    V('suffix length clamped like a last-byte position',
      [(B, "start = max(0, content_length - amount)", "start = content_length - min(amount, content_length - 1)")],
      'R13.1', 'get_http_range'),
    V('suffix range one byte too long',
      [(B, "start = max(0, content_length - amount)", "start = max(0, content_length - amount - 1)")],
      'R13.1', 'get_http_range'),
    V('neutral: suffix start by comparison instead of max()',
      [(B, "            start = max(0, content_length - amount)\n", "            if amount >= content_length:\n                start = 0\n            else:\n                start = content_length - amount\n")],
      None),
    V('neutral: suffix start clamped after the subtraction',
      [(B, "            start = max(0, content_length - amount)\n", "            start = content_length - amount\n            if start < 0:\n                start = 0\n")],
      None),
]

VARIANTS['C10'] += [
    V('PlayReady pssh lists no key ids for a track with two keys',
      [('dashlive/drm/playready.py', "        if len(keys) < 2:\n            return mp4.ContentProtectionSpecificBox(\n                version=0,", "        if len(keys) <= 2:\n            return mp4.ContentProtectionSpecificBox(\n                version=0,")],
      'R10.7', 'generate_pssh'),
    V('neutral: single-key test of the PlayReady pssh written the other way round',
      [('dashlive/drm/playready.py', "        if len(keys) < 2:\n            return mp4.ContentProtectionSpecificBox(\n                version=0,", "        if not len(keys) >= 2:\n            return mp4.ContentProtectionSpecificBox(\n                version=0,")],
      None),
]

VARIANTS['C18'] += [
    V('decode time compared within a whole second',
      [(VMS, "                self.expected_decode_time,\n                self.decode_time,\n                delta=self.tolerance,\n", "                self.expected_decode_time,\n                self.decode_time,\n                delta=self.parent.dash_timescale(),\n")],
      'R18.13', 'validate_segment'),
    V('neutral: segment tolerance named before the decode time is compared',
      [(VMS, "            self.elt.check_almost_equal(\n                self.expected_decode_time,\n                self.decode_time,\n                delta=self.tolerance,\n",
        "            allowed = self.tolerance\n            self.elt.check_almost_equal(\n                self.expected_decode_time,\n                self.decode_time,\n                delta=allowed,\n")],
      None),
]

VARIANTS['C19'] += [
    V('fraction read as a number and scaled up until it has six digits',
      [(DT, "                    kwargs['microsecond'] = int(frac[:6].ljust(6, '0'), 10)\n",
        "                    micros = int(frac[:6] or '0', 10)\n                    while 0 < micros < 100000:\n                        micros *= 10\n                    kwargs['microsecond'] = micros\n")],
      'R19.2', 'from_isodatetime'),
    V('neutral: fraction scaled by the number of digits that are missing',
      [(DT, "                    kwargs['microsecond'] = int(frac[:6].ljust(6, '0'), 10)\n",
        "                    digits = frac[:6]\n                    kwargs['microsecond'] = int(digits, 10) * 10 ** (6 - len(digits))\n")],
      None),
]

VARIANTS['C03'] += [
    V('change announced only while a cached encoding exists',
      [(MP4, "        if self._encoded is not None:\n            self._encoded = None\n            if self.parent:\n                self.parent._invalidate()\n",
        "        if self._encoded is not None:\n            self._encoded = None\n            self.trigger_change()\n            if self.parent:\n                self.parent._invalidate()\n"),
       (MP4, "                self._invalidate()\n                self.trigger_change()\n        object.__setattr__(self, name, value)\n", "                self._invalidate()\n        object.__setattr__(self, name, value)\n")],
      'R03.9', '__setattr__'),
    V('neutral: change announced before the cached encoding is dropped',
      [(MP4, "                self._invalidate()\n                self.trigger_change()\n        object.__setattr__(self, name, value)\n", "                self.trigger_change()\n                self._invalidate()\n        object.__setattr__(self, name, value)\n")],
      None),
]

# --- twelfth wave: slips in collaborators of the anchored functions
VARIANTS['C20'] += [
    V('explicit window size stored only when it is true',
      [(BR, "        self.size = size\n        self.max_buffers = max_buffers\n",
        "        self.size = None\n        if size:\n            self.size = size\n        self.max_buffers = max_buffers\n")],
      'R20.6', '__init__'),
    V('neutral: explicit window size stored under an `is not None` test',
      [(BR, "        self.size = size\n        self.max_buffers = max_buffers\n",
        "        self.size = None\n        if size is not None:\n            self.size = size\n        self.max_buffers = max_buffers\n")],
      None),
]

VSTL = 'dashlive/mpeg/dash/validator/segment_timeline.py'
VARIANTS['C18'] += [
    V('S@t that does not follow on is replaced by the running start',
      [(VSTL, "            start = int(t, 10) if t is not None else start\n",
        "            if t is not None:\n                t = int(t, 10)\n                if start is not None and t != start:\n"
        "                    t = start\n                start = t\n")],
      'R18.11', '__init__'),
    V('neutral: S@t parsed into a local before it becomes the running start',
      [(VSTL, "            start = int(t, 10) if t is not None else start\n",
        "            if t is not None:\n                t_value = int(t, 10)\n                start = t_value\n")],
      None),
]

DRMOPT = 'dashlive/server/options/drm_options.py'
for _p, _r in (('C10', 'R10.5'), ('C07', 'R07.5'), ('C11', 'R11.8')):
    VARIANTS[_p] += [
        V('location list of one DRM item decided by a dash anywhere in the option',
          [(DRMOPT, "    for item in value.split(','):\n        if '-' in item:\n", "    for item in value.split(','):\n        if '-' in value:\n")],
          _r, '_drm_selection_from_string'),
        V('neutral: DRM item split first, location list decided by the number of pieces',
          [(DRMOPT, "        if '-' in item:\n            parts = item.split('-')\n            drm = parts[0]\n",
            "        parts = item.split('-')\n        if len(parts) > 1:\n            drm = parts[0]\n")],
          None),
    ]

UTCOPT = 'dashlive/server/options/utc_time_options.py'
VARIANTS['C16'] += [
    V('time method validated after stripping blanks, returned as typed',
      [(UTCOPT, "    if method is not None and method not in UTC_METHODS:\n", "    if method is not None and method.strip() not in UTC_METHODS:\n")],
      'R16.17', '_utc_method_from_string'),
    V('neutral: time method normalised first, then validated and returned in that form',
      [(UTCOPT, "    if method is not None and method not in UTC_METHODS:\n",
        "    if method is not None:\n        method = method.lower()\n    if method is not None and method not in UTC_METHODS:\n")],
      None),
    V('neutral: time method validated in lower case and returned in lower case',
      [(UTCOPT, "    if method is not None and method not in UTC_METHODS:\n        raise ValueError(f'Unknown UTC timing method \"{method}\"')\n    return method\n",
        "    if method is None:\n        return None\n    if method.lower() not in UTC_METHODS:\n        raise ValueError(f'Unknown UTC timing method \"{method}\"')\n    return method.lower()\n")],
      None),
]

SPLT = 'dashlive/scte35/splice_time.py'
VARIANTS['C14'] += [
    V('pts written under a mask one bit narrower than its field',
      [(SPLT, "            w.write(33, 'pts')\n", "            w.write(33, 'pts', value=self.pts & 0xFFFFFFFF)\n")],
      'R14.1', 'SpliceTime'),
    V('neutral: pts written under a mask as wide as its field',
      [(SPLT, "            w.write(33, 'pts')\n", "            w.write(33, 'pts', value=self.pts & 0x1FFFFFFFF)\n")],
      None),
]

VARIANTS['C04'] += [
    V('mfhd sequence number written under a 16-bit mask into its 32-bit field',
      [(MP4, "        w.write('I', 'sequence_number')\n", "        w.write('I', 'sequence_number', value=self.sequence_number & 0xFFFF)\n")],
      'R04.1', 'MovieFragmentHeaderBox'),
    V('neutral: mfhd sequence number written under a 32-bit mask',
      [(MP4, "        w.write('I', 'sequence_number')\n", "        w.write('I', 'sequence_number', value=self.sequence_number & 0xFFFFFFFF)\n")],
      None),
]

MFILE = 'dashlive/server/models/mediafile.py'
for _p, _r in (('C13', 'R13.6'), ('C17', 'R17.11')):
    VARIANTS[_p] += [
        V('size of the rewritten media file taken while the writing handle is open',
          [(MFILE, "                            dest.write(src.read(frag.size))\n        except Exception as err:\n",
            "                            dest.write(src.read(frag.size))\n                    stats = new_filename.stat()\n        except Exception as err:\n"),
           (MFILE, "        stats = new_filename.stat()\n        old_blob = self.blob\n", "        old_blob = self.blob\n")],
          _r, 'modify_media_file'),
        V('neutral: size of the rewritten media file taken right after the with block, inside the try',
          [(MFILE, "                            dest.write(src.read(frag.size))\n        except Exception as err:\n",
            "                            dest.write(src.read(frag.size))\n            stats = new_filename.stat()\n        except Exception as err:\n"),
           (MFILE, "        stats = new_filename.stat()\n        old_blob = self.blob\n", "        old_blob = self.blob\n")],
          None),
    ]

KEYM = 'dashlive/server/models/key.py'
VARIANTS['C17'] += [
    V('key/media-file link rows left to the database although SQLite enforces no foreign keys',
      [(KEYM, "        secondary=mediafile_keys, back_populates='encryption_keys')\n",
        "        secondary=mediafile_keys, back_populates='encryption_keys',\n        passive_deletes=True)\n")],
      'R17.1', 'mediafile_keys'),
    V('neutral: key/media-file relationship spells out passive_deletes=False',
      [(KEYM, "        secondary=mediafile_keys, back_populates='encryption_keys')\n",
        "        secondary=mediafile_keys, back_populates='encryption_keys',\n        passive_deletes=False)\n")],
      None),
]

USERM = 'dashlive/server/requesthandler/user_management.py'
VARIANTS['C15'] += [
    V('records of used CSRF tokens wiped whenever a fresh token collection is issued',
      [(USERM, "def generate_csrf_tokens() -> CsrfTokenCollection:\n    csrf_key: str = CsrfProtection.generate_cookie()\n",
        "def generate_csrf_tokens() -> CsrfTokenCollection:\n    csrf_key: str = CsrfProtection.generate_cookie()\n    Token.prune_database(True, db.session)\n")],
      'R15.7', 'generate_csrf_tokens'),
    V('neutral: expired token records pruned whenever a fresh token collection is issued',
      [(USERM, "def generate_csrf_tokens() -> CsrfTokenCollection:\n    csrf_key: str = CsrfProtection.generate_cookie()\n",
        "def generate_csrf_tokens() -> CsrfTokenCollection:\n    csrf_key: str = CsrfProtection.generate_cookie()\n    Token.prune_database(all_csrf=False, session=db.session)\n")],
      None),
    V('expiry test dropped from the pruning of token records',
      [('dashlive/server/models/token.py', "        stmt = delete(cls).where(cls.expires < now)\n        session.execute(stmt)\n        if all_csrf:\n",
        "        stmt = delete(cls).where(cls.token_type != TokenType.REFRESH)\n        session.execute(stmt)\n        if all_csrf:\n"),
       (USERM, "def generate_csrf_tokens() -> CsrfTokenCollection:\n    csrf_key: str = CsrfProtection.generate_cookie()\n",
        "def generate_csrf_tokens() -> CsrfTokenCollection:\n    csrf_key: str = CsrfProtection.generate_cookie()\n    Token.prune_database(all_csrf=False, session=db.session)\n")],
      'R15.7', 'generate_csrf_tokens'),
]

_SEARCH_OLD = "        while (seg_start_tc + (self.segments[mod_segment].duration // 2)) < timecode:\n"
for _p, _r in (('C09', 'R09.8'), ('C12', 'R12.7')):
    VARIANTS[_p] += [
        V('nearest-start search decides with the duration of the previous segment',
          [(REPF, _SEARCH_OLD, "        while (seg_start_tc + (self.segments[mod_segment - 1].duration // 2)) < timecode:\n")],
          _r, 'get_segment_index'),
        V('nearest-start search decides with the nominal segment duration',
          [(REPF, _SEARCH_OLD, "        while (seg_start_tc + (self.segment_duration // 2)) < timecode:\n")],
          _r, 'get_segment_index'),
        V('neutral: nearest-start search names the duration of the segment at hand',
          [(REPF, _SEARCH_OLD + "            seg_start_tc += self.segments[mod_segment].duration\n",
            "        while True:\n            this_duration = self.segments[mod_segment].duration\n"
            "            if (seg_start_tc + (this_duration // 2)) >= timecode:\n                break\n"
            "            seg_start_tc += this_duration\n")],
          None),
    ]
VARIANTS['C09'] += [
    V('origin pulled back by one loop when it is later than the timecode',
      [(REPF, "        mod_segment, seg_start_tc, origin_time = self.get_segment_index(timecode)\n",
        "        mod_segment, seg_start_tc, origin_time = self.get_segment_index(timecode)\n"
        "        if origin_time > timecode:\n            origin_time -= self.mediaDuration\n            seg_start_tc -= self.mediaDuration\n")],
      'R09.7', 'calculate_segment_from_timecode'),
    V('neutral: index triple unpacked from a named result',
      [(REPF, "        mod_segment, seg_start_tc, origin_time = self.get_segment_index(timecode)\n",
        "        found = self.get_segment_index(timecode)\n        mod_segment, seg_start_tc, origin_time = found\n")],
      None),
]

_TS_OLD = ("        if flags & TrackFragmentRunBox.sample_size_present:\n            rv['size'] = struct.unpack('>I', src.read(4))[0]\n"
           "        else:\n            rv['size'] = tfhd.default_sample_size\n")
for _p, _r in (('C04', 'R04.12'), ('C06', 'R06.13')):
    VARIANTS[_p] += [
        V('tfhd default size stored after the per-sample size was read',
          [(MP4, _TS_OLD, "        if flags & TrackFragmentRunBox.sample_size_present:\n            rv['size'] = struct.unpack('>I', src.read(4))[0]\n"
            "        if tfhd.default_sample_size:\n            rv['size'] = tfhd.default_sample_size\n")],
          _r, 'TrackSample'),
        V('neutral: tfhd default size stored first, per-sample size read over it',
          [(MP4, _TS_OLD, "        rv['size'] = tfhd.default_sample_size\n        if flags & TrackFragmentRunBox.sample_size_present:\n"
            "            rv['size'] = struct.unpack('>I', src.read(4))[0]\n")],
          None),
    ]

BINPY = 'dashlive/utils/binary.py'
VARIANTS['C04'] += [
    V('hex auto-detection of Binary.from_kwargs also matches a bytes prefix',
      [(BINPY, "            if encoding is None and (len(data) % 2) == 0 and data[:2] == '0x':\n",
        "            if encoding is None and (len(data) % 2) == 0 and data[:2] in ('0x', b'0x'):\n")],
      'R04.13', 'from_kwargs'),
    V('Binary.from_kwargs treats every even-length payload without an encoding as hex',
      [(BINPY, "            if encoding is None and (len(data) % 2) == 0 and data[:2] == '0x':\n",
        "            if encoding is None and (len(data) % 2) == 0:\n")],
      'R04.13', 'from_kwargs'),
    V('neutral: hex auto-detection of Binary.from_kwargs applies to text only, said explicitly',
      [(BINPY, "            if encoding is None and (len(data) % 2) == 0 and data[:2] == '0x':\n",
        "            if encoding is None and isinstance(data, str) and (len(data) % 2) == 0 and data[:2] == '0x':\n")],
      None),
]

_AUX_CALL = "                s = CencSampleAuxiliaryData.parse(\n                    src, size, rv[\"iv_size\"], rv[\"flags\"], rv)\n"
VARIANTS['C03'] += [
    V('senc entry offsets measured from the enclosing traf instead of the senc box',
      [(MP4, _AUX_CALL, "                s = CencSampleAuxiliaryData.parse(\n                    src, size, rv[\"iv_size\"], rv[\"flags\"], parent)\n")],
      'R03.10', 'CencSampleEncryptionBox'),
    V('senc entry offset taken after the initialization vector was read',
      [(MP4, "            \"offset\": src.tell() - parent['position'],\n            \"size\": size,\n", "            \"size\": size,\n"),
       (MP4, "        r.read(iv_size, \"initialization_vector\", encoder=HexBinary)\n        rv[\"subsamples\"] = []\n",
        "        r.read(iv_size, \"initialization_vector\", encoder=HexBinary)\n        rv[\"offset\"] = src.tell() - parent['position']\n        rv[\"subsamples\"] = []\n")],
      'R03.10', 'CencSampleAuxiliaryData'),
    V('senc entry offsets computed from the header size, override block forgotten',
      [(MP4, "    def parse(clz, src, size, iv_size, flags, parent):\n", "    def parse(clz, src, size, iv_size, flags, offset):\n"),
       (MP4, "            \"offset\": src.tell() - parent['position'],\n", "            \"offset\": offset,\n"),
       (MP4, "        for i in range(num_entries):\n            if saiz.sample_info_sizes:\n",
        "        offset = rv[\"header_size\"] + 8\n        for i in range(num_entries):\n            if saiz.sample_info_sizes:\n"),
       (MP4, _AUX_CALL + "                rv[\"samples\"].append(s)\n",
        "                s = CencSampleAuxiliaryData.parse(\n                    src, size, rv[\"iv_size\"], rv[\"flags\"], offset)\n                rv[\"samples\"].append(s)\n                offset += size\n")],
      'R03.10', 'CencSampleEncryptionBox'),
    V('neutral: senc entry offset measured by the box parser and handed in',
      [(MP4, "    def parse(clz, src, size, iv_size, flags, parent):\n", "    def parse(clz, src, size, iv_size, flags, offset):\n"),
       (MP4, "            \"offset\": src.tell() - parent['position'],\n", "            \"offset\": offset,\n"),
       (MP4, _AUX_CALL, "                s = CencSampleAuxiliaryData.parse(\n                    src, size, rv[\"iv_size\"], rv[\"flags\"],\n                    src.tell() - rv['position'])\n")],
      None),
    V('neutral: senc entry offsets computed, override block accounted for',
      [(MP4, "    def parse(clz, src, size, iv_size, flags, parent):\n", "    def parse(clz, src, size, iv_size, flags, offset):\n"),
       (MP4, "            \"offset\": src.tell() - parent['position'],\n", "            \"offset\": offset,\n"),
       (MP4, "        if rv[\"flags\"] & 0x01:\n            r.read('3I', 'algorithm_id')\n",
        "        offset = rv[\"header_size\"] + 8\n        if rv[\"flags\"] & 0x01:\n            offset += 20\n            r.read('3I', 'algorithm_id')\n"),
       (MP4, _AUX_CALL + "                rv[\"samples\"].append(s)\n",
        "                s = CencSampleAuxiliaryData.parse(\n                    src, size, rv[\"iv_size\"], rv[\"flags\"], offset)\n                rv[\"samples\"].append(s)\n                offset += size\n")],
      None),
]

TZPY = 'dashlive/utils/timezone.py'
_TZ_OLD = ("        offset = int(tz_match.group('hour'), 10) * 60\n        offset += int(tz_match.group('minute'), 10)\n"
           "        if tz_match.group('delta') == '-':\n            offset = -offset\n        self.__offset = datetime.timedelta(minutes=offset)\n")
for _p, _r in (('C19', 'R19.3'), ('C08', 'R08.10'), ('C07', 'R07.8')):
    VARIANTS[_p] += [
        V('UTC offset folded into the half day either side of UTC',
          [(TZPY, "            offset = -offset\n        self.__offset = datetime.timedelta(minutes=offset)\n",
            "            offset = -offset\n        offset = (offset + 720) % 1440 - 720\n        self.__offset = datetime.timedelta(minutes=offset)\n")],
          _r, '__init__'),
        V('sign of the UTC offset attached to the hour text, minutes negated when the hours are negative',
          [(TZPY, _TZ_OLD,
            "        hours = int(tz_match.group('delta') + tz_match.group('hour'), 10)\n        minutes = int(tz_match.group('minute'), 10)\n"
            "        if hours < 0:\n            minutes = -minutes\n        self.__offset = datetime.timedelta(hours=hours, minutes=minutes)\n")],
          _r, '__init__'),
        V('neutral: sign of the UTC offset attached to hour and minute texts alike',
          [(TZPY, _TZ_OLD,
            "        sign = tz_match.group('delta')\n        hours = int(sign + tz_match.group('hour'), 10)\n"
            "        minutes = int(sign + tz_match.group('minute'), 10)\n        self.__offset = datetime.timedelta(hours=hours, minutes=minutes)\n")],
          None),
        V('neutral: UTC offset limited to what a tzinfo may return',
          [(TZPY, "            offset = -offset\n        self.__offset = datetime.timedelta(minutes=offset)\n",
            "            offset = -offset\n        offset = max(-1439, min(1439, offset))\n        self.__offset = datetime.timedelta(minutes=offset)\n")],
          None),
    ]

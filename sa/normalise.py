"""E11 - normal form of a function before a rule looks at it.

The rules are written against the functions the properties are anchored in.  A maintainer
who extracts a helper, turns an if/elif chain into `match`, or writes an if/else as a
conditional expression has not changed behaviour, so the rules must see the same thing.
`expand(fn)` returns a deep copy of `fn` in which

* calls of *new* helpers are inlined.  "New" = not in the inventory of functions of the tree
  the rules were written against (sa/baseline_functions.json); nested `def`s are always
  candidates.  Methods of the same class (`self.h()`, `cls.h()`, `C.h()`), functions of the
  same module, nested functions, and - when the name is unique among the new functions of the
  repository - methods of a base class in another module are resolved.  A helper is inlined
  when its returns are in tail position of if-chains (so that `return e` becomes an assignment
  to the call's target), it has no yield / global / nonlocal / *args / **kwargs, and it is
  not recursive; one-expression helpers are substituted inside expressions.  Locals of the
  helper that clash with the caller's are renamed.
* `match` on a simple subject with literal / wildcard / capture patterns is an if/elif chain.
* `x = a if c else b` and `return a if c else b` are if/else statements.

Inlining is semantics-preserving for the helpers it accepts (arguments that are not plain
names / attribute chains / constants are bound to a fresh local first, in order).  Nothing
is executed.  Line numbers of inlined statements are those of the helper.
"""
from __future__ import annotations

import ast
import copy
import json
from pathlib import Path

BASELINE = Path(__file__).resolve().parent / 'baseline_functions.json'
MAX_STMTS = 80
MAX_DEPTH = 3


def clone(node):
    """deep copy of an AST without the analysis back-links (_parent / _repo) that would drag the
    whole module along"""
    if isinstance(node, list):
        return [clone(x) for x in node]
    if not isinstance(node, ast.AST):
        return node
    new = node.__class__()
    for f in node._fields:
        if hasattr(node, f):
            setattr(new, f, clone(getattr(node, f)))
    if getattr(node, '_implicit', False):
        new._implicit = True
    for a in node._attributes:
        if hasattr(node, a):
            setattr(new, a, getattr(node, a))
    return new


def qualnames(tree: ast.Module) -> list[str]:
    out = []

    def walk(body, prefix):
        for n in body:
            if isinstance(n, (ast.FunctionDef, ast.AsyncFunctionDef)):
                out.append(prefix + n.name)
            elif isinstance(n, ast.ClassDef):
                out.append(prefix + n.name + '.')       # the class itself (it may have no methods: a record)
                walk(n.body, prefix + n.name + '.')
    walk(tree.body, '')
    return out


def _stmt_count(fn: ast.AST) -> int:
    return sum(1 for n in ast.walk(fn) if isinstance(n, ast.stmt))


def _assigned_names(fn: ast.AST) -> set[str]:
    out = set()
    for n in ast.walk(fn):
        if isinstance(n, ast.Name) and isinstance(n.ctx, (ast.Store, ast.Del)):
            out.add(n.id)
        elif isinstance(n, ast.arg):
            out.add(n.arg)
        elif isinstance(n, (ast.FunctionDef, ast.AsyncFunctionDef, ast.ClassDef)) and n is not fn:
            out.add(n.name)
        elif isinstance(n, ast.ExceptHandler) and n.name:
            out.add(n.name)
        elif isinstance(n, (ast.Import, ast.ImportFrom)):
            for a in n.names:
                out.add((a.asname or a.name).split('.')[0])
    return out


def _simple(e: ast.AST) -> bool:
    """an argument that may be substituted for a parameter: evaluation has no effect and the value
    cannot change between uses unless the helper assigns it"""
    if isinstance(e, ast.Constant):
        return True
    if isinstance(e, ast.Name):
        return True
    if isinstance(e, ast.Attribute):
        return _simple(e.value)
    return False


def _pure(e: ast.AST) -> bool:
    """no effect and no dependence on evaluation order: names, attributes, constants, operators,
    literals, and constructor calls of the builtin containers"""
    for x in ast.walk(e):
        if isinstance(x, (ast.Await, ast.NamedExpr, ast.Yield, ast.YieldFrom, ast.Lambda)):
            return False
        if isinstance(x, ast.Call):
            if not (isinstance(x.func, ast.Name) and x.func.id in ('frozenset', 'set', 'tuple', 'list', 'dict',
                                                                   'int', 'str', 'float', 'bool', 'len')):
                return False
    return True


def _always_returns(block: list[ast.stmt]) -> bool:
    if not block:
        return False
    last = block[-1]
    if isinstance(last, (ast.Return, ast.Raise)):
        return True
    if isinstance(last, ast.If):
        return _always_returns(last.body) and _always_returns(last.orelse)
    if isinstance(last, (ast.With, ast.AsyncWith)):
        return _always_returns(last.body)
    if isinstance(last, ast.Try) and not last.finalbody and not last.orelse:
        return _always_returns(last.body) and all(_always_returns(h.body) for h in last.handlers)
    return False


def _returns_in_tail_position(block: list[ast.stmt]) -> bool:
    """can `return e` be turned into an assignment?  Returns may sit in if-arms anywhere (the rest of
    the block is then continued in the arms that fall through) and in a `with` that ends its block;
    not in loops, try, match or nested functions."""
    for i, st in enumerate(block):
        if isinstance(st, ast.Return):
            continue
        has_ret = any(isinstance(n, ast.Return) for n in ast.walk(st))
        if not has_ret:
            continue
        if isinstance(st, ast.If):
            if not (_returns_in_tail_position(st.body) and _returns_in_tail_position(st.orelse)):
                return False
        elif isinstance(st, (ast.With, ast.AsyncWith)):
            if i != len(block) - 1 or not _returns_in_tail_position(st.body):
                return False
        elif isinstance(st, ast.Try):
            # `try: return a  except E: ...; return b` as the last statement of the block, or
            # `try: a  except E: return b` followed by more statements (continued in `else:` and in the
            # handlers that fall through)
            if st.finalbody:
                return False
            if i != len(block) - 1 or st.orelse:
                body_ret = any(isinstance(n, ast.Return) for b in st.body for n in ast.walk(b))
                if body_ret and not _always_returns(st.body):
                    return False
                if not _returns_in_tail_position(st.orelse) or not _returns_in_tail_position(block[i + 1:]):
                    return False
            if not _returns_in_tail_position(st.body) or not all(
                    _returns_in_tail_position(h.body) for h in st.handlers):
                return False
            if i != len(block) - 1:
                return True
        elif isinstance(st, (ast.FunctionDef, ast.AsyncFunctionDef, ast.ClassDef)):
            continue
        else:
            return False
    return True


_COMMON_METHOD_NAMES = frozenset(
    n for t in (dict, list, str, bytes, set, tuple, int, float, bytearray, frozenset, object)
    for n in dir(t)) | frozenset(
    {'read', 'write', 'seek', 'tell', 'close', 'flush', 'open', 'get', 'post', 'put', 'delete', 'add', 'commit',
     'query', 'filter', 'first', 'all', 'one', 'execute', 'encode', 'decode', 'parse', 'load', 'save', 'run',
     'start', 'stop', 'send', 'recv', 'next', 'iter', 'render', 'validate', 'group', 'match', 'search', 'sub'})


def _without_bare_return(body: list) -> list | None:
    """block in which every bare `return` that sits in if-branches (at any depth, outside loops) is gone:
    what follows an `if` is continued inside the branches that fall through.  None when there is nothing
    to rewrite or a return sits in a loop / try / with."""
    def has_ret(stmts) -> bool:
        return any(isinstance(n, ast.Return) for x in stmts
                   if not isinstance(x, (ast.FunctionDef, ast.AsyncFunctionDef, ast.ClassDef)) for n in ast.walk(x))

    class Unsupported(Exception):
        pass

    def elim(stmts: list, k: list) -> list:
        out: list = []
        for i, x in enumerate(stmts):
            if isinstance(x, ast.Return):
                if x.value is not None:
                    raise Unsupported()
                return out or [ast.copy_location(ast.Pass(), x)]
            if isinstance(x, ast.If) and has_ret([x]):
                k2 = elim(stmts[i + 1:], k)
                then = elim(list(x.body), clone(k2))
                orelse = elim(list(x.orelse), clone(k2))
                out.append(ast.copy_location(ast.If(test=x.test, body=then or [ast.copy_location(ast.Pass(), x)],
                                                    orelse=orelse), x))
                return out
            if has_ret([x]):
                raise Unsupported()
            out.append(x)
        return out + k
    if not has_ret(body):
        return None
    try:
        return elim(list(body), [])
    except Unsupported:
        return None


def _without_continue(body: list) -> list | None:
    """loop body with `if c: ..; continue` at its top level rewritten as `if c: .. else: <rest>`; None when
    there is nothing to rewrite or a continue sits anywhere else"""
    def has_continue(stmts) -> bool:
        for x in stmts:
            if isinstance(x, ast.Continue):
                return True
            if isinstance(x, (ast.For, ast.While, ast.FunctionDef, ast.AsyncFunctionDef, ast.ClassDef)):
                continue
            for f_ in ('body', 'orelse', 'finalbody'):
                if has_continue(getattr(x, f_, []) or []):
                    return True
            for h in getattr(x, 'handlers', []) or []:
                if has_continue(h.body):
                    return True
        return False
    if not has_continue(body):
        return None
    out = []
    for i, x in enumerate(body):
        if isinstance(x, ast.If) and x.body and isinstance(x.body[-1], ast.Continue) and not has_continue(x.body[:-1]) \
                and not has_continue(x.orelse):
            rest = _without_continue(body[i + 1:])
            if rest is None:
                rest = body[i + 1:]
            if has_continue(rest):
                return None
            new = ast.copy_location(ast.If(test=x.test, body=x.body[:-1] or [ast.copy_location(ast.Pass(), x)],
                                           orelse=list(x.orelse) + rest), x)
            return out + [new]
        if has_continue([x]):
            return None
        out.append(x)
    return None


def _simplify_test(e: ast.AST) -> ast.AST:
    """a test with the comparisons of two literals decided: `'size' == 'flags' and x` is False, `'a' == 'a'
    and x` is x.  Returns the node itself when nothing could be decided."""
    def const_truth(n: ast.AST):
        if isinstance(n, ast.Constant) and (n.value is None or isinstance(n.value, (bool, int, str, bytes))):
            return bool(n.value)
        return None
    if isinstance(e, ast.Compare) and len(e.ops) == 1 and isinstance(e.left, ast.Constant) \
            and isinstance(e.comparators[0], ast.Constant):
        a, b = e.left.value, e.comparators[0].value
        op = e.ops[0]
        try:
            if isinstance(op, ast.Eq):
                return ast.copy_location(ast.Constant(value=a == b), e)
            if isinstance(op, ast.NotEq):
                return ast.copy_location(ast.Constant(value=a != b), e)
            if isinstance(op, ast.Is) and (a is None or b is None):
                return ast.copy_location(ast.Constant(value=a is b), e)
            if isinstance(op, ast.IsNot) and (a is None or b is None):
                return ast.copy_location(ast.Constant(value=a is not b), e)
        except Exception:       # noqa: BLE001
            return e
        return e
    if isinstance(e, ast.UnaryOp) and isinstance(e.op, ast.Not):
        inner = _simplify_test(e.operand)
        t = const_truth(inner)
        if t is not None:
            return ast.copy_location(ast.Constant(value=not t), e)
        if inner is not e.operand:
            return ast.copy_location(ast.UnaryOp(op=ast.Not(), operand=inner), e)
        return e
    if isinstance(e, ast.BoolOp):
        vals = [_simplify_test(v) for v in e.values]
        is_and = isinstance(e.op, ast.And)
        kept = []
        for v in vals:
            t = const_truth(v)
            if t is None:
                kept.append(v)
            elif t != is_and:
                # False in an `and` / True in an `or` decides the test once everything before it is harmless
                if not any(isinstance(x, (ast.Call, ast.Await, ast.NamedExpr)) for k in kept for x in ast.walk(k)):
                    return ast.copy_location(ast.Constant(value=t), e)
                kept.append(v)
        if len(kept) == len(e.values) and all(a is b for a, b in zip(kept, e.values)):
            return e
        if not kept:
            return ast.copy_location(ast.Constant(value=is_and), e)
        if len(kept) == 1:
            return kept[0]
        return ast.copy_location(ast.BoolOp(op=e.op, values=kept), e)
    return e


class _Sub(ast.NodeTransformer):
    def __init__(self, mapping: dict[str, ast.AST], rename: dict[str, str]):
        self.mapping = mapping
        self.rename = rename

    def visit_Name(self, node: ast.Name):
        if node.id in self.mapping and isinstance(node.ctx, ast.Load):
            return ast.copy_location(clone(self.mapping[node.id]), node)
        if node.id in self.rename:
            return ast.copy_location(ast.Name(id=self.rename[node.id], ctx=node.ctx), node)
        return node

    def visit_arg(self, node: ast.arg):
        return node

    def visit_Call(self, node: ast.Call):
        # `f(a, **fields)` where `fields` is the pass-through **kwargs of an inlined helper
        new_kw = []
        for k in node.keywords:
            if k.arg is None and isinstance(k.value, ast.Name) and ('**' + k.value.id) in self.mapping:
                new_kw.extend(clone(x) for x in self.mapping['**' + k.value.id])
            else:
                new_kw.append(k)
        node.keywords = new_kw
        self.generic_visit(node)
        return node

    def visit_Lambda(self, node):
        return node        # parameters of lambdas shadow; left alone (helpers with lambdas are rare)


class Normaliser:
    def __init__(self, repo) -> None:
        self.repo = repo
        try:
            self.baseline: dict[str, list[str]] = json.loads(BASELINE.read_text())
        except (OSError, ValueError):
            self.baseline = {}
        self._cache: dict[int, ast.AST] = {}
        self._new_by_name: dict | None = None
        self._baseline_names: set[str] | None = None
        self._new_names: set[str] | None = None
        self._new_classes: set[str] | None = None
        self.inlined: list[str] = []

    # ---- inventory ---------------------------------------------------------------
    def is_new(self, rel: str, qual: str) -> bool:
        if not self.baseline:
            return False
        return qual not in self.baseline.get(rel, [])

    def new_named(self, name: str) -> list:
        """new (non-baseline) functions / methods called `name` anywhere in the repository"""
        if self._baseline_names is None:
            self._baseline_names = {q.rsplit('.', 1)[-1] for qs in self.baseline.values() for q in qs}
        if name in self._baseline_names or not name.isidentifier():
            return []
        if self._new_by_name is None:
            self._new_by_name = {}
        if name not in self._new_by_name:
            out = []
            needle = f'def {name}('
            for rel in self.repo.py_files('dashlive'):
                try:
                    if needle not in self.repo.source(rel):
                        continue
                    tree = self.repo.tree(rel)
                except Exception:
                    continue
                known = set(self.baseline.get(rel, []))
                for n in tree.body:
                    if isinstance(n, (ast.FunctionDef, ast.AsyncFunctionDef)) and n.name == name \
                            and n.name not in known:
                        out.append((rel, None, n))
                    elif isinstance(n, ast.ClassDef):
                        for m in n.body:
                            if isinstance(m, (ast.FunctionDef, ast.AsyncFunctionDef)) and m.name == name \
                                    and f'{n.name}.{m.name}' not in known:
                                out.append((rel, n, m))
            self._new_by_name[name] = out
        return self._new_by_name[name]

    # ---- entry point -----------------------------------------------------------------
    def expand(self, fn: ast.AST) -> ast.AST:
        key = id(fn)
        if key in self._cache:
            return self._cache[key]
        if not self._needs(fn):
            self._cache[key] = fn
            return fn
        mod = fn
        cls = None
        while getattr(mod, '_parent', None) is not None:
            mod = mod._parent
            if isinstance(mod, ast.ClassDef) and cls is None:
                cls = mod
        rel = getattr(mod, '_rel', None)
        new = clone(fn)
        try:
            changed = self._expand_fn(new, rel, mod, cls, stack=(fn.name,), depth=0)
        except RecursionError:
            changed = False
        if not changed:
            self._cache[key] = fn
            return fn
        ast.fix_missing_locations(new)
        for node in ast.walk(new):
            for child in ast.iter_child_nodes(node):
                child._parent = node          # type: ignore[attr-defined]
        new._parent = getattr(fn, '_parent', None)      # type: ignore[attr-defined]
        new._expanded_from = fn                          # type: ignore[attr-defined]
        self._cache[key] = new
        return new

    def new_names(self) -> set[str]:
        """names of functions defined somewhere in the repository that are not in the baseline"""
        if self._new_names is None:
            import re as _re
            defined: set[str] = set()
            for rel in self.repo.py_files('dashlive'):
                try:
                    defined.update(_re.findall(r'^\s*(?:async\s+)?def\s+(\w+)\s*\(', self.repo.source(rel), _re.M))
                except Exception:
                    pass
            if self._baseline_names is None:
                self._baseline_names = {q.rsplit('.', 1)[-1] for qs in self.baseline.values() for q in qs}
            # a name is new if some definition of it is not listed: compare per file
            new: set[str] = set()
            for rel in self.repo.py_files('dashlive'):
                known = {q.rsplit('.', 1)[-1] for q in self.baseline.get(rel, [])}
                try:
                    here = set(_re.findall(r'^\s*(?:async\s+)?def\s+(\w+)\s*\(', self.repo.source(rel), _re.M))
                except Exception:
                    continue
                new |= here - known
            self._new_names = new
        return self._new_names

    def _baseline_names_set(self) -> set[str]:
        if self._baseline_names is None:
            self._baseline_names = {q.rsplit('.', 1)[-1] for qs in self.baseline.values() for q in qs}
        return self._baseline_names

    def new_class_names(self) -> set[str]:
        if self._new_classes is None:
            import re as _re
            out: set[str] = set()
            for rel in self.repo.py_files('dashlive'):
                known = self.baseline.get(rel, [])
                try:
                    src = self.repo.source(rel)
                except Exception:
                    continue
                for cn in _re.findall(r'^class\s+(\w+)', src, _re.M):
                    if not any(q.startswith(cn + '.') for q in known):
                        out.add(cn)
            self._new_classes = out
        return self._new_classes

    def _needs(self, fn: ast.AST) -> bool:
        """cheap test: can any transformation apply?"""
        if self._baseline_names is None:
            self._baseline_names = {q.rsplit('.', 1)[-1] for qs in self.baseline.values() for q in qs}
        for n in ast.walk(fn):
            if isinstance(n, (ast.Match, ast.IfExp)):
                return True
            if isinstance(n, ast.If) and isinstance(n.test, ast.Constant):
                return True
            if isinstance(n, ast.Call) and isinstance(n.func, ast.Attribute) and n.func.attr == 'extend' and len(n.args) == 1 \
                    and isinstance(n.args[0], ast.Call) and isinstance(n.args[0].func, ast.Attribute) \
                    and n.args[0].func.attr not in self._baseline_names:
                return True         # xs.extend(self.new_generator(..))
            if isinstance(n, ast.Call) and isinstance(n.func, ast.Attribute) and isinstance(n.func.value, ast.Call) \
                    and isinstance(n.func.value.func, ast.Name) and n.func.value.func.id.lstrip('_')[:1].isupper() \
                    and self.baseline and n.func.value.func.id in self.new_class_names():
                return True         # Helper(a).run(b) with a class the rules were not written against
            if isinstance(n, ast.Attribute) and n.attr.isupper() and isinstance(n.value, ast.Name) \
                    and n.value.id in ('self', 'cls', 'clz') and isinstance(getattr(n, '_parent', None), (ast.BinOp, ast.Compare, ast.AugAssign)):
                return True         # a class-level value constant in arithmetic (self.ONE_DAY)
            if isinstance(n, ast.Assign) and isinstance(n.targets[0], (ast.Tuple, ast.List)) \
                    and isinstance(n.value, (ast.GeneratorExp, ast.ListComp)):
                return True
            if isinstance(n, ast.BoolOp) and isinstance(n.op, ast.Or) and len(n.values) == 2 \
                    and isinstance(n.values[0], ast.Name) and isinstance(getattr(n, '_parent', None), (ast.Call, ast.BinOp)):
                return True
            if isinstance(n, ast.Call) and any(k.arg is None and isinstance(k.value, (ast.Dict, ast.Name))
                                               and (isinstance(k.value, ast.Dict) or k.value.id.isupper())
                                               for k in n.keywords):
                return True
            if isinstance(n, ast.For) and isinstance(n.iter, ast.GeneratorExp):
                return True
            if isinstance(n, ast.comprehension):
                it = n.iter
                if (isinstance(it, ast.Attribute) and it.attr.isupper()) or (isinstance(it, ast.Name) and it.id.isupper()):
                    return True
            if isinstance(n, ast.Assign) and isinstance(n.targets[0], (ast.Tuple, ast.List)) \
                    and isinstance(n.value, (ast.Tuple, ast.List)):
                return True
            if isinstance(n, (ast.Assign, ast.AnnAssign)) and getattr(n, 'value', None) is not None:
                v_ = n.value
                t_ = v_.value if isinstance(v_, ast.Subscript) else (
                    v_.func.value if isinstance(v_, ast.Call) and isinstance(v_.func, ast.Attribute)
                    and v_.func.attr == 'get' else None)
                if isinstance(t_, ast.Name) and t_.id.isupper() or isinstance(t_, ast.Attribute) and t_.attr.isupper():
                    return True
            if isinstance(n, ast.Call) and isinstance(n.func, ast.Attribute) and n.func.attr == 'join' \
                    and isinstance(n.func.value, ast.Constant) and len(n.args) == 1 and isinstance(n.args[0], ast.Call):
                return True
            if isinstance(n, ast.Call) and isinstance(n.func, ast.Subscript) and (
                    (isinstance(n.func.value, ast.Name) and n.func.value.id.isupper())
                    or (isinstance(n.func.value, ast.Attribute) and n.func.value.attr.isupper())):
                return True             # TABLE[key](..): a callee picked from a constant table
            if isinstance(n, ast.Assign) and isinstance(n.value, ast.Call) and isinstance(n.value.func, ast.Name) \
                    and n.value.func.id[:1].isupper() and self.baseline and n.value.func.id in self.new_class_names():
                return True
            if isinstance(n, ast.For):
                it = n.iter
                if isinstance(it, ast.Call) and isinstance(it.func, ast.Attribute) and it.func.attr == 'get':
                    it = it.func.value
                elif isinstance(it, ast.Subscript):
                    it = it.value
                if isinstance(it, (ast.Tuple, ast.List)) or (isinstance(it, ast.Attribute) and it.attr.isupper()) \
                        or (isinstance(it, ast.Name) and it.id.isupper()):
                    return True
            if isinstance(n, ast.Assign) and isinstance(n.targets[0], (ast.Tuple, ast.List)) \
                    and isinstance(n.value, ast.Call) and isinstance(n.value.func, ast.Name) \
                    and n.value.func.id[:1].isupper():
                return True
            if isinstance(n, (ast.FunctionDef, ast.AsyncFunctionDef)) and n is not fn:
                return True
            if isinstance(n, ast.Assign) and len(n.targets) > 1:
                return True
            if isinstance(n, ast.Call) and isinstance(n.func, ast.Attribute) and n.func.attr in ('pack', 'unpack', 'unpack_from', 'pack_into') \
                    and ast.unparse(n.func.value) != 'struct':
                return True             # maybe a struct.Struct constant
            if isinstance(n, ast.Call) and ast.unparse(n.func) in ('struct.Struct', 'Struct'):
                return True
            if isinstance(n, ast.Name) and isinstance(n.ctx, ast.Load) and n.id.isupper() and len(n.id) > 3 \
                    and ('DAY' in n.id or 'EPOCH' in n.id or 'TIME' in n.id or 'DELTA' in n.id or 'SECOND' in n.id
                         or 'HOUR' in n.id or 'MINUTE' in n.id or 'PERIOD' in n.id):
                return True             # maybe a module-level date / time constant
            if isinstance(n, ast.Return) and isinstance(n.value, ast.Call) and isinstance(n.value.func, ast.Name) \
                    and n.value.func.id[:1].isupper() and n.value.keywords:
                return True             # return Record(field=..): maybe a named tuple
            if isinstance(n, ast.Call):
                f = n.func
                name = f.id if isinstance(f, ast.Name) else (f.attr if isinstance(f, ast.Attribute) else None)
                if name == 'format' and isinstance(f, ast.Attribute) and isinstance(f.value, ast.Constant):
                    return True
                if name and self.baseline and (name in self.new_names() or name in self.new_class_names()) and (
                        isinstance(f, ast.Name) or (isinstance(f.value, ast.Name))):
                    return True
            if isinstance(n, ast.BinOp) and isinstance(n.op, ast.Mod) and isinstance(n.left, ast.Constant) \
                    and isinstance(n.left.value, str):
                return True
        return False

    # ---- transformations -----------------------------------------------------------------
    def _expand_fn(self, fn: ast.AST, rel, mod, cls, stack, depth) -> bool:
        changed = False
        self._cur_fn = fn
        self._cur_mod = mod
        for _ in range(12):
            c1 = self._match_to_if(fn)
            c1 = self._name_chained_ctor_receiver(fn, mod) or c1
            c2 = self._ifexp_to_if(fn)
            c2 = self._format_to_fstring(fn) or c2
            c3 = self._inline_calls(fn, rel, mod, cls, stack, depth) if depth < MAX_DEPTH else False
            c4 = self._namedtuple_unpack(fn, mod)
            c4 = self._scalar_replace_records(fn, mod) or c4
            c4 = self._join_of_generator(fn, rel, mod, cls) or c4
            c4 = self._comprehension_with_helper(fn, rel, mod, cls, stack) or c4
            c4 = self._unpack_of_comprehension(fn) or c4
            c4 = self._extend_of_generator(fn) or c4
            c4 = self._enumerate_of_generator_call(fn, rel, mod, cls) or c4
            c4 = self._or_default_to_ifexp(fn) or c4
            self._cur_fn = fn
            c5 = self._fold_table_comprehensions(fn, mod, cls)
            c5 = self._unroll_constant_tables(fn, mod, cls) or c5
            c5 = self._split_chained_assign(fn) or c5
            c5 = self._struct_constants_to_calls(fn, mod, cls) or c5
            c5 = self._struct_choice_split(fn) or c5
            c5 = self._thread_boolean_temp(fn) or c5
            c5 = self._thread_optional_result(fn) or c5
            c5 = self._thread_result_or_error(fn, mod) or c5
            c5 = self._thread_constant_test(fn) or c5
            c5 = self._forward_ctor_fields(fn, mod) or c5
            c5 = self._sink_splat_user(fn) or c5
            c5 = self._inline_module_value_constants(fn, mod, cls) or c5
            c5 = self._fold_constant_ifs(fn) or c5
            c5 = self._loops_over_genexp(fn) or c5
            c5 = self._forward_adjacent_copies(fn) or c5
            c5 = self._forward_argument_temps(fn) or c5
            c5 = self._collapse_copy_chains(fn) or c5
            c5 = self._propagate_field_copies(fn) or c5
            c5 = self._sink_table_loops(fn, mod, cls) or c5
            c5 = self._sink_rest_after_lookup(fn, mod, cls) or c5
            c5 = self._name_table_callee(fn, mod, cls) or c5
            c5 = self._hoist_table_lookup_arg(fn, mod, cls) or c5
            for _k in range(8):
                if not self._split_on_table_lookup(fn, mod, cls):
                    break
                c5 = True
            c5 = self._propagate_constant_locals(fn) or c5
            c5 = self._split_tuple_assign(fn) or c5
            changed = changed or c1 or c2 or c3 or c4 or c5
            if not (c1 or c2 or c3 or c4 or c5):
                break
        return changed

    # ---- loops over constant tables ------------------------------------------------------
    @staticmethod
    def _simple_elem(e: ast.AST) -> bool:
        if isinstance(e, (ast.Tuple, ast.List)):
            return all(Normaliser._simple_elem(x) for x in e.elts)
        if isinstance(e, ast.Dict):
            # a row may carry a small dict of constants (keyword arguments kept in the table)
            return all(k is not None and isinstance(k, ast.Constant) for k in e.keys) and all(
                isinstance(v, ast.Constant) for v in e.values)
        if isinstance(e, ast.Call):
            # a value object built from constants: datetime.timedelta(days=1)
            fname = ast.unparse(e.func)
            return fname in ('datetime.timedelta', 'timedelta', 'datetime.time', 'datetime.date', 'frozenset') \
                and all(isinstance(a, ast.Constant) for a in e.args) \
                and all(k.arg is not None and isinstance(k.value, ast.Constant) for k in e.keywords)
        return isinstance(e, (ast.Constant, ast.Name, ast.Attribute)) and not any(
            isinstance(x, ast.Call) for x in ast.walk(e))

    def _const_table(self, e: ast.AST, mod, cls):
        """the literal a loop iterates over: written in place, or a class / module level name bound once
        to a tuple / list / dict literal whose elements are constants, names or attributes.
        -> (literal node, owner class or None) or None"""
        if isinstance(e, (ast.Tuple, ast.List)):
            return (e, None) if self._simple_elem(e) else None
        owner = None
        name = None
        if isinstance(e, ast.Attribute) and isinstance(e.value, ast.Name):
            if e.value.id in ('self', 'cls', 'clz') or (cls is not None and e.value.id == cls.name):
                owner, name = cls, e.attr
            else:
                owner = next((c for c in getattr(mod, 'body', []) if isinstance(c, ast.ClassDef)
                              and c.name == e.value.id), None)
                name = e.attr
            if owner is None:
                return None
        elif isinstance(e, ast.Name):
            name = e.id
            cur = getattr(self, '_cur_fn', None)
            if cur is not None and not name.isupper():
                # a local bound once to a literal table and never changed in place
                stores = [n for n in ast.walk(cur) if isinstance(n, ast.Name) and n.id == name
                          and isinstance(n.ctx, (ast.Store, ast.Del))]
                defs_l = [n for n in ast.walk(cur) if isinstance(n, ast.Assign) and len(n.targets) == 1
                          and isinstance(n.targets[0], ast.Name) and n.targets[0].id == name]
                if len(stores) == 1 and len(defs_l) == 1 and isinstance(defs_l[0].value, (ast.Tuple, ast.List)) \
                        and self._simple_elem(defs_l[0].value) and defs_l[0].value.elts \
                        and not any(isinstance(x, ast.Starred) for x in ast.walk(defs_l[0].value)):
                    touched = any(
                        (isinstance(n, ast.Attribute) and isinstance(n.value, ast.Name) and n.value.id == name
                         and n.attr in ('append', 'extend', 'insert', 'pop', 'remove', 'sort', 'reverse', 'clear'))
                        or (isinstance(n, ast.Subscript) and isinstance(n.value, ast.Name) and n.value.id == name
                            and isinstance(n.ctx, (ast.Store, ast.Del)))
                        for n in ast.walk(cur))
                    # the elements must not be rebound between the definition and the loop: only
                    # attribute chains and constants are accepted for a local table
                    plain = all(isinstance(x, (ast.Constant, ast.Attribute, ast.Tuple, ast.List, ast.Load, ast.Name))
                                for x in ast.walk(defs_l[0].value)) and not any(
                        isinstance(x, ast.Name) and x.id not in ('self', 'cls', 'clz') and not x.id[:1].isupper()
                        for x in ast.walk(defs_l[0].value))
                    if not touched and plain:
                        return defs_l[0].value, None
                return None
        else:
            return None
        body = owner.body if owner is not None else getattr(mod, 'body', [])
        defs = []
        for st in body:
            if isinstance(st, ast.Assign) and len(st.targets) == 1 and isinstance(st.targets[0], ast.Name) \
                    and st.targets[0].id == name:
                defs.append(st.value)
            elif isinstance(st, ast.AnnAssign) and isinstance(st.target, ast.Name) and st.target.id == name \
                    and st.value is not None:
                defs.append(st.value)
        if len(defs) != 1 or not name.isupper():
            return None                     # only names spelt as constants
        lit = defs[0]
        if isinstance(lit, (ast.Tuple, ast.List)) and self._simple_elem(lit):
            return lit, owner
        if isinstance(lit, ast.Dict) and all(isinstance(k, ast.Constant) for k in lit.keys) \
                and all(isinstance(v, (ast.Tuple, ast.List)) and self._simple_elem(v) for v in lit.values):
            return lit, owner
        return None

    def _unroll_constant_tables(self, fn: ast.AST, mod, cls) -> bool:
        """`for fmt, name in TABLE: BODY` over a literal table becomes BODY once per row with the row's
        values in place of the loop variables; `TABLE.get(key, ())` / `TABLE[key]` over a dict of rows
        becomes an if/elif over the keys.  Only when BODY neither assigns the loop variables nor
        contains break / continue / return, and the result stays small."""
        changed = False
        for blk in list(self._blocks(fn)):
            i = 0
            while i < len(blk):
                st = blk[i]
                i += 1
                if not isinstance(st, ast.For) or st.orelse:
                    continue
                it = st.iter
                key = None
                strict = False
                table = None
                if isinstance(it, ast.Call) and isinstance(it.func, ast.Attribute) and it.func.attr == 'get' \
                        and len(it.args) == 2 and isinstance(it.args[1], (ast.Tuple, ast.List)) and not it.args[1].elts:
                    table, key = self._const_table(it.func.value, mod, cls), it.args[0]
                elif isinstance(it, ast.Subscript) and not isinstance(it.slice, ast.Slice):
                    table, key, strict = self._const_table(it.value, mod, cls), it.slice, True
                else:
                    table = self._const_table(it, mod, cls)
                if table is None:
                    continue
                lit, owner = table
                if (key is None) != (not isinstance(lit, ast.Dict)):
                    continue
                targets = [x.id for x in ast.walk(st.target) if isinstance(x, ast.Name)]
                bad = False
                no_cont = _without_continue(st.body)
                if no_cont is not None:
                    st.body = no_cont
                for n in ast.walk(ast.Module(body=st.body, type_ignores=[])):
                    # a return leaves the function whether the loop is written out or not
                    if isinstance(n, (ast.Break, ast.Continue, ast.Yield, ast.YieldFrom)):
                        bad = True
                    if isinstance(n, ast.Name) and isinstance(n.ctx, (ast.Store, ast.Del)) and n.id in targets:
                        bad = True
                if bad:
                    continue
                class_names = set()
                if owner is not None:
                    for x in owner.body:
                        if isinstance(x, ast.Assign):
                            class_names |= {t.id for t in x.targets if isinstance(t, ast.Name)}
                        elif isinstance(x, ast.AnnAssign) and isinstance(x.target, ast.Name):
                            class_names.add(x.target.id)

                def rows_to_stmts(rows) -> list | None:
                    out: list[ast.stmt] = []
                    for row in rows:
                        mapping: dict[str, ast.AST] = {}

                        def bind(t, v) -> bool:
                            if isinstance(t, ast.Name):
                                mapping[t.id] = v
                                return True
                            if isinstance(t, (ast.Tuple, ast.List)) and isinstance(v, (ast.Tuple, ast.List)) \
                                    and len(t.elts) == len(v.elts):
                                return all(bind(a, b) for a, b in zip(t.elts, v.elts))
                            return False
                        if not bind(st.target, row):
                            return None
                        if owner is not None:
                            # a bare name inside a class-level table is a class attribute
                            class Q(ast.NodeTransformer):
                                def visit_Name(self, node):
                                    if node.id in class_names:
                                        return ast.Attribute(value=ast.Name(id=owner.name, ctx=ast.Load()),
                                                             attr=node.id, ctx=ast.Load())
                                    return node
                            mapping = {k: Q().visit(clone(v)) for k, v in mapping.items()}
                        body = clone(st.body)
                        holder = ast.Module(body=body, type_ignores=[])
                        _Sub(mapping, {}).visit(holder)
                        out.extend(holder.body)
                        if len(out) > 150:
                            return None
                    return out
                if isinstance(lit, ast.Dict):
                    arms = []
                    ok = True
                    for k, v in zip(lit.keys, lit.values):
                        body = rows_to_stmts(v.elts)
                        if body is None:
                            ok = False
                            break
                        arms.append((k, body or [ast.Pass()]))
                    if not ok or not arms:
                        continue
                    node = None
                    tail: list[ast.stmt] = []
                    if strict:
                        tail = [ast.Raise(exc=ast.Call(func=ast.Name(id='KeyError', ctx=ast.Load()),
                                                       args=[clone(key)], keywords=[]), cause=None)]
                        tail[0]._implicit = True
                    for k, body in reversed(arms):
                        test = ast.Compare(left=clone(key), ops=[ast.Eq()], comparators=[clone(k)])
                        node = ast.If(test=test, body=body, orelse=([node] if node is not None else tail))
                    new_stmts = [node]
                else:
                    body = rows_to_stmts(lit.elts)
                    if body is None:
                        continue
                    new_stmts = body or [ast.Pass()]
                for x in new_stmts:
                    ast.copy_location(x, st)
                    ast.fix_missing_locations(x)
                blk[i - 1:i] = new_stmts
                i += len(new_stmts) - 1
                changed = True
        return changed

    def _namedtuple_unpack(self, fn: ast.AST, mod) -> bool:
        """`a, b = Pair(first=x, second=y)` with `class Pair(NamedTuple)` of the same module:
        `a, b = (x, y)` - the record exists only to be taken apart again"""
        classes = {c.name: c for c in getattr(mod, 'body', []) if isinstance(c, ast.ClassDef)
                   and any(ast.unparse(b).split('.')[-1] == 'NamedTuple' for b in c.bases)}
        if not classes:
            return False
        changed = False
        for n in ast.walk(fn):
            # `return Pair(first=x, second=y)`: a named tuple is a tuple - callers that unpack the result or
            # compare it see the same value
            is_ret = isinstance(n, ast.Return) and isinstance(n.value, ast.Call) and isinstance(n.value.func, ast.Name) \
                and n.value.func.id in classes and bool(self.baseline) and n.value.func.id in self.new_class_names()
            if not is_ret and not (isinstance(n, ast.Assign) and len(n.targets) == 1 and isinstance(n.targets[0], (ast.Tuple, ast.List))
                                   and isinstance(n.value, ast.Call) and isinstance(n.value.func, ast.Name)
                                   and n.value.func.id in classes):
                continue
            c = classes[n.value.func.id]
            fields = [(x.target.id, x.value) for x in c.body if isinstance(x, ast.AnnAssign)
                      and isinstance(x.target, ast.Name)]
            call = n.value
            if any(isinstance(a, ast.Starred) for a in call.args) or any(k.arg is None for k in call.keywords):
                continue
            actual = {}
            for (name, _d), a in zip(fields, call.args):
                actual[name] = a
            for k in call.keywords:
                actual[k.arg] = k.value
            vals = []
            for name, dflt in fields:
                v = actual.get(name, dflt)
                if v is None:
                    vals = None
                    break
                vals.append(v)
            if vals is None or len(actual) > len(fields) or (not is_ret and len(vals) != len(n.targets[0].elts)):
                continue
            n.value = ast.copy_location(ast.Tuple(elts=vals, ctx=ast.Load()), call)
            changed = True
        return changed

    @staticmethod
    def _record_classes(mod) -> dict:
        """NamedTuple / dataclass records of the module: name -> (class, [(field, default)], {property: expr})"""
        out = {}
        for c in getattr(mod, 'body', []):
            if not isinstance(c, ast.ClassDef):
                continue
            is_nt = any(ast.unparse(b).split('.')[-1] == 'NamedTuple' for b in c.bases)
            is_dc = any(ast.unparse(d.func if isinstance(d, ast.Call) else d).split('.')[-1] == 'dataclass'
                        for d in c.decorator_list)
            if not (is_nt or is_dc) or (is_dc and c.bases):
                continue
            fields = [(x.target.id, x.value) for x in c.body if isinstance(x, ast.AnnAssign)
                      and isinstance(x.target, ast.Name) and 'ClassVar' not in ast.unparse(x.annotation)]
            props = {}
            simple = True
            for m in c.body:
                if isinstance(m, ast.FunctionDef):
                    decs = [ast.unparse(d) for d in m.decorator_list]
                    body = [x for x in m.body if not (isinstance(x, ast.Expr) and isinstance(x.value, ast.Constant))]
                    if decs == ['property'] and len(body) == 1 and isinstance(body[0], ast.Return) \
                            and body[0].value is not None and len(m.args.args) == 1:
                        props[m.name] = (m.args.args[0].arg, body[0].value)
                    elif m.name in ('__post_init__', '__new__', '__init__', '__getattr__', '__getattribute__'):
                        simple = False
            if simple and fields:
                out[c.name] = (c, fields, props)
        return out

    def _scalar_replace_records(self, fn: ast.AST, mod) -> bool:
        """`w = Window(a, b)` .. `w.start` .. `w.length` (a NamedTuple / dataclass of the module that only
        carries values between two places of one function, typically after a helper was inlined): one
        local per field.  Only when every use of the name is a read (or, for a dataclass, a write) of a
        declared field or a one-expression property, and every assignment of the name is a constructor
        call of the same record class."""
        recs = self._record_classes(mod)
        if not recs:
            return False
        changed = False
        params = {a.arg for a in fn.args.args + fn.args.kwonlyargs} if hasattr(fn, 'args') else set()
        parent_of = {id(ch): nd for nd in ast.walk(fn) for ch in ast.iter_child_nodes(nd)}
        # candidate names
        assigns: dict[str, list[ast.Assign]] = {}
        for n in ast.walk(fn):
            if isinstance(n, (ast.Assign, ast.AnnAssign)) and getattr(n, 'value', None) is not None:
                tg = n.targets if isinstance(n, ast.Assign) else [n.target]
                if len(tg) == 1 and isinstance(tg[0], ast.Name):
                    assigns.setdefault(tg[0].id, []).append(n)
        for name, defs in assigns.items():
            if name in params:
                continue
            none_defs = [d for d in defs if isinstance(d.value, ast.Constant) and d.value.value is None]
            defs = [d for d in defs if d not in none_defs]
            if not defs:
                continue
            kinds = {d.value.func.id if isinstance(d.value, ast.Call) and isinstance(d.value.func, ast.Name) else None
                     for d in defs}
            if len(kinds) != 1 or None in kinds or next(iter(kinds)) not in recs:
                continue
            cname = next(iter(kinds))
            cdef, fields, props = recs[cname]
            fnames = [f for f, _ in fields]
            is_nt = any(ast.unparse(b).split('.')[-1] == 'NamedTuple' for b in cdef.bases)
            ok = True
            uses = []
            none_tests: list[ast.Compare] = []
            method_names = {m.name for m in cdef.body if isinstance(m, ast.FunctionDef) and m.name not in props}
            pending_methods = False
            for n in ast.walk(fn):
                if isinstance(n, ast.Name) and n.id == name:
                    par = parent_of.get(id(n))
                    gp = parent_of.get(id(par)) if par is not None else None
                    if isinstance(par, ast.Call) and isinstance(par.func, ast.Name) and par.func.id == 'str' \
                            and len(par.args) == 1 and par.args[0] is n and not par.keywords and '__str__' in method_names:
                        # str(record) is record.__str__()
                        par.func = ast.copy_location(ast.Attribute(value=n, attr='__str__', ctx=ast.Load()), par)
                        par.args = []
                        pending_methods = True
                        changed = True
                        continue
                    if isinstance(par, ast.Attribute) and par.value is n and par.attr in method_names \
                            and isinstance(gp, ast.Call) and gp.func is par:
                        # byte_range.content_range(): for the inliner, which needs to know the class of the local
                        pending_methods = True
                        continue
                    if isinstance(n.ctx, ast.Store) and any(n is (d.targets[0] if isinstance(d, ast.Assign) else d.target)
                                                            for d in defs + none_defs):
                        continue
                    if none_defs and isinstance(par, ast.Compare) and par.left is n and len(par.ops) == 1 \
                            and isinstance(par.ops[0], (ast.Is, ast.IsNot)) \
                            and isinstance(par.comparators[0], ast.Constant) and par.comparators[0].value is None:
                        none_tests.append(par)
                        continue
                    if isinstance(par, ast.Attribute) and par.value is n and (
                            (par.attr in fnames and (isinstance(par.ctx, ast.Load) or not is_nt))
                            or (par.attr in props and isinstance(par.ctx, ast.Load))):
                        uses.append(par)
                        continue
                    ok = False
                    break
                if isinstance(n, ast.ExceptHandler) and n.name == name:
                    ok = False
                    break
                if isinstance(n, (ast.Global, ast.Nonlocal)) and name in n.names:
                    ok = False
                    break
            if ok and pending_methods:
                locs = getattr(fn, '_local_classes', None)
                if locs is None:
                    locs = fn._local_classes = {}
                if locs.get(name) is not cdef and self.baseline and cname in self.new_class_names():
                    locs[name] = cdef
                    changed = True          # another round: the method calls can be inlined now
                continue
            if not ok or not uses:
                continue
            # every constructor call must bind all fields plainly
            plans = []
            for d in defs:
                call = d.value
                if any(isinstance(a, ast.Starred) for a in call.args) or any(k.arg is None for k in call.keywords) \
                        or len(call.args) > len(fields):
                    ok = False
                    break
                order: list[tuple[str, ast.AST]] = [(fnames[i], a) for i, a in enumerate(call.args)]
                for k in call.keywords:
                    if k.arg not in fnames or k.arg in [f for f, _ in order]:
                        ok = False
                        break
                    order.append((k.arg, k.value))
                given = {f for f, _ in order}
                for f, dflt in fields:
                    if f not in given:
                        if isinstance(dflt, ast.Call) and ast.unparse(dflt.func).split('.')[-1] == 'field' and not dflt.args \
                                and len(dflt.keywords) == 1 and dflt.keywords[0].arg == 'default_factory' \
                                and isinstance(dflt.keywords[0].value, ast.Name) \
                                and dflt.keywords[0].value.id in ('set', 'list', 'dict'):
                            dflt = ast.Call(func=ast.Name(id=dflt.keywords[0].value.id, ctx=ast.Load()), args=[], keywords=[])
                        elif isinstance(dflt, ast.Call) and ast.unparse(dflt.func).split('.')[-1] == 'field' and not dflt.args \
                                and len(dflt.keywords) == 1 and dflt.keywords[0].arg == 'default' \
                                and isinstance(dflt.keywords[0].value, ast.Constant):
                            dflt = dflt.keywords[0].value
                        elif dflt is None or not isinstance(dflt, ast.Constant):
                            ok = False
                            break
                        order.append((f, clone(dflt)))
                if not ok:
                    break
                plans.append((d, order))
            if not ok:
                continue
            loc = {f: f'{name}__{f}' for f in fnames}
            flag = f'{name}__set'
            taken = {x.id for x in ast.walk(fn) if isinstance(x, ast.Name)}
            if any(v in taken for v in loc.values()) or (none_defs and flag in taken):
                continue
            if none_defs:
                # an optional record: one more local says whether it is there
                for d in none_defs:
                    new0 = ast.copy_location(ast.Assign(targets=[ast.Name(id=flag, ctx=ast.Store())],
                                                        value=ast.Constant(value=False)), d)
                    for blk in self._blocks(fn):
                        for i, st in enumerate(blk):
                            if st is d:
                                blk[i:i + 1] = [new0]
                                break
                for t_ in none_tests:
                    present = ast.Name(id=flag, ctx=ast.Load())
                    repl = present if isinstance(t_.ops[0], ast.IsNot) else ast.UnaryOp(op=ast.Not(), operand=present)
                    par = parent_of.get(id(t_))
                    for fld, val in ast.iter_fields(par):
                        if val is t_:
                            setattr(par, fld, ast.copy_location(repl, t_))
                        elif isinstance(val, list) and any(x is t_ for x in val):
                            val[[j for j, x in enumerate(val) if x is t_][0]] = ast.copy_location(repl, t_)
            # the parent links must be current for the replacement
            for d, order in plans:
                new = [ast.copy_location(ast.Assign(targets=[ast.Name(id=loc[f], ctx=ast.Store())], value=v), d)
                       for f, v in order]
                if none_defs:
                    new.append(ast.copy_location(ast.Assign(targets=[ast.Name(id=flag, ctx=ast.Store())],
                                                            value=ast.Constant(value=True)), d))
                for blk in self._blocks(fn):
                    for i, st in enumerate(blk):
                        if st is d:
                            blk[i:i + 1] = new
                            break

            class R(ast.NodeTransformer):
                def visit_Attribute(inner, node):
                    if isinstance(node.value, ast.Name) and node.value.id == name:
                        if node.attr in loc:
                            return ast.copy_location(ast.Name(id=loc[node.attr], ctx=node.ctx), node)
                        if node.attr in props:
                            selfname, expr = props[node.attr]

                            class P(ast.NodeTransformer):
                                def visit_Attribute(p_, nd):
                                    if isinstance(nd.value, ast.Name) and nd.value.id == selfname and nd.attr in loc:
                                        return ast.Name(id=loc[nd.attr], ctx=ast.Load())
                                    return p_.generic_visit(nd)
                            e = P().visit(clone(expr))
                            if any(isinstance(x, ast.Name) and x.id == selfname for x in ast.walk(e)):
                                return node
                            return ast.copy_location(e, node)
                    return inner.generic_visit(node)
            R().visit(fn)
            if any(isinstance(x, ast.Name) and x.id == name for x in ast.walk(fn)):
                # a property that could not be written out: leave the (now inconsistent) function alone
                raise RecursionError('record replacement incomplete')
            ast.fix_missing_locations(fn)
            parent_of = {id(ch): nd for nd in ast.walk(fn) for ch in ast.iter_child_nodes(nd)}
            changed = True
        return changed

    def _unpack_of_comprehension(self, fn: ast.AST) -> bool:
        """`a, b = (f(p) for p in xs)`: `_u1, _u2 = xs; a = f(_u1); b = f(_u2)` (the same ValueError when
        xs does not have as many items as there are targets)"""
        changed = False
        for blk in list(self._blocks(fn)):
            i = 0
            while i < len(blk):
                st = blk[i]
                i += 1
                if not (isinstance(st, ast.Assign) and len(st.targets) == 1 and isinstance(st.targets[0], (ast.Tuple, ast.List))
                        and all(isinstance(t, ast.Name) for t in st.targets[0].elts)
                        and isinstance(st.value, (ast.GeneratorExp, ast.ListComp)) and len(st.value.generators) == 1):
                    continue
                g = st.value.generators[0]
                if g.ifs or g.is_async or not isinstance(g.target, ast.Name):
                    continue
                tnames = [t.id for t in st.targets[0].elts]
                if any(isinstance(x, ast.Name) and x.id in tnames for x in ast.walk(st.value)):
                    continue
                self._tmp = getattr(self, '_tmp', 0) + 1
                taken = {x.id for x in ast.walk(fn) if isinstance(x, ast.Name)}
                us = []
                for k in range(len(tnames)):
                    nm = f'_u{self._tmp}_{k + 1}'
                    if nm in taken:
                        us = []
                        break
                    us.append(nm)
                if not us:
                    continue
                new: list[ast.stmt] = [ast.Assign(
                    targets=[ast.Tuple(elts=[ast.Name(id=u, ctx=ast.Store()) for u in us], ctx=ast.Store())],
                    value=g.iter)]
                for t, u in zip(tnames, us):
                    holder = ast.Expr(value=clone(st.value.elt))
                    _Sub({g.target.id: ast.Name(id=u, ctx=ast.Load())}, {}).visit(holder)
                    new.append(ast.Assign(targets=[ast.Name(id=t, ctx=ast.Store())], value=holder.value))
                for x in new:
                    ast.copy_location(x, st)
                    ast.fix_missing_locations(x)
                blk[i - 1:i] = new
                i += len(new) - 1
                changed = True
        return changed

    def _or_default_to_ifexp(self, fn: ast.AST) -> bool:
        """`x or d` as a value (not as a test) with x a plain name: `x if x else d`"""
        changed = False

        class T(ast.NodeTransformer):
            def visit_BoolOp(inner, node):
                nonlocal changed
                inner.generic_visit(node)
                if isinstance(node.op, ast.Or) and len(node.values) == 2 and isinstance(node.values[0], ast.Name):
                    changed = True
                    return ast.copy_location(ast.IfExp(test=clone(node.values[0]), body=node.values[0],
                                                       orelse=node.values[1]), node)
                return node
        for blk in list(self._blocks(fn)):
            for st in blk:
                if isinstance(st, (ast.Assign, ast.AnnAssign, ast.Return, ast.AugAssign)) and getattr(st, 'value', None) is not None:
                    # only below the top of the value: `flag = a or b` itself is a truth value more often than not
                    for sub in ast.iter_child_nodes(st.value):
                        pass
                    if isinstance(st.value, ast.BoolOp):
                        continue
                    st.value = T().visit(st.value)
        return changed

    def _comprehension_with_helper(self, fn: ast.AST, rel, mod, cls, stack) -> bool:
        """`return [helper(x) for x in xs]` / `r = [helper(a, b) for a, b in pairs]` where helper is a new
        function of several statements: the explicit loop `_c = []; for x in xs: _c.append(helper(x))`, so
        that the helper can be merged in.  One generator, no conditions, the comprehension is the whole
        value of the statement."""
        changed = False
        for blk in list(self._blocks(fn)):
            i = 0
            while i < len(blk):
                st = blk[i]
                i += 1
                if not isinstance(st, (ast.Return, ast.Assign, ast.AnnAssign)) or getattr(st, 'value', None) is None:
                    continue
                comp = st.value
                if not (isinstance(comp, ast.ListComp) and len(comp.generators) == 1 and not comp.generators[0].is_async):
                    continue
                g = comp.generators[0]
                calls = [c for c in ast.walk(comp.elt) if isinstance(c, ast.Call)]
                multi = False
                for c in calls:
                    r = self._callee_for(c, fn, rel, mod, cls, stack)
                    if r is not None:
                        body = self._body(r[0])
                        if not (len(body) == 1 and isinstance(body[0], ast.Return)):
                            multi = True
                if not multi:
                    continue
                inner = {x.id for x in ast.walk(g.target) if isinstance(x, ast.Name)}
                outside = {x.id for x in ast.walk(fn) if isinstance(x, ast.Name)
                           and not any(x is y for y in ast.walk(comp))}
                if inner & outside:
                    continue            # the loop variable would shadow / leak
                self._tmp = getattr(self, '_tmp', 0) + 1
                acc = f'_c{self._tmp}'
                body: list[ast.stmt] = [ast.Expr(value=ast.Call(
                    func=ast.Attribute(value=ast.Name(id=acc, ctx=ast.Load()), attr='append', ctx=ast.Load()),
                    args=[comp.elt], keywords=[]))]
                for cond in reversed(g.ifs):
                    body = [ast.If(test=cond, body=body, orelse=[])]
                pre = [ast.Assign(targets=[ast.Name(id=acc, ctx=ast.Store())], value=ast.List(elts=[], ctx=ast.Load())),
                       ast.For(target=g.target, iter=g.iter, body=body, orelse=[])]
                st.value = ast.Name(id=acc, ctx=ast.Load())
                for x in pre:
                    ast.copy_location(x, st)
                    ast.fix_missing_locations(x)
                blk[i - 1:i - 1] = pre
                i += len(pre)
                changed = True
        return changed

    def _join_of_generator(self, fn: ast.AST, rel, mod, cls) -> bool:
        """`return b''.join(self.slices(a))` with a new generator helper: the explicit accumulation
        `_j = []; for _x in self.slices(a): _j.append(_x); return b''.join(_j)` (the loop is then merged
        with the generator body like any other loop over it)"""
        changed = False
        for blk in list(self._blocks(fn)):
            i = 0
            while i < len(blk):
                st = blk[i]
                i += 1
                if not isinstance(st, (ast.Return, ast.Assign, ast.AnnAssign, ast.Expr, ast.AugAssign)) \
                        or getattr(st, 'value', None) is None:
                    continue
                hit = None
                genexp = None
                for n in ast.walk(st.value):
                    if isinstance(n, ast.Call) and isinstance(n.func, ast.Attribute) and n.func.attr == 'join' \
                            and isinstance(n.func.value, ast.Constant) and len(n.args) == 1 and not n.keywords \
                            and isinstance(n.args[0], ast.Call):
                        r = self._resolve(n.args[0], fn, rel, mod, cls)
                        if r is not None and self._acceptable_generator(r[0]) and any(
                                isinstance(y, ast.Yield) for y in ast.walk(r[0])):
                            hit = n
                            break
                    # b''.join(f(x) for x in self.gen(a)): the same, with the element expression in the loop
                    if isinstance(n, ast.Call) and isinstance(n.func, ast.Attribute) and n.func.attr == 'join' \
                            and isinstance(n.func.value, ast.Constant) and len(n.args) == 1 and not n.keywords \
                            and isinstance(n.args[0], (ast.GeneratorExp, ast.ListComp)) and len(n.args[0].generators) == 1 \
                            and not n.args[0].generators[0].ifs and not n.args[0].generators[0].is_async \
                            and isinstance(n.args[0].generators[0].iter, ast.Call):
                        r = self._resolve(n.args[0].generators[0].iter, fn, rel, mod, cls)
                        if r is not None and self._acceptable_generator(r[0]) and any(
                                isinstance(y, ast.Yield) for y in ast.walk(r[0])):
                            hit, genexp = n, n.args[0]
                            break
                if hit is None:
                    continue
                # the join must be the first thing the statement evaluates that can have an effect
                calls_before = [c for c in ast.walk(st.value) if isinstance(c, ast.Call) and c is not hit
                                and not any(c is x for x in ast.walk(hit))
                                and (c.lineno, c.col_offset) < (hit.lineno, hit.col_offset)
                                and not any(hit is x for x in ast.walk(c))]
                if calls_before:
                    continue
                self._tmp = getattr(self, '_tmp', 0) + 1
                acc, item = f'_j{self._tmp}', f'_j{self._tmp}x'
                gen_call = hit.args[0]
                hit.args[0] = ast.Name(id=acc, ctx=ast.Load())
                if genexp is not None:
                    target_, gen_call, elt_ = clone(genexp.generators[0].target), genexp.generators[0].iter, genexp.elt
                    for x_ in ast.walk(target_):
                        if isinstance(x_, ast.Name):
                            x_.ctx = ast.Store()
                else:
                    target_, elt_ = ast.Name(id=item, ctx=ast.Store()), ast.Name(id=item, ctx=ast.Load())
                pre = [ast.Assign(targets=[ast.Name(id=acc, ctx=ast.Store())], value=ast.List(elts=[], ctx=ast.Load())),
                       ast.For(target=target_, iter=gen_call,
                               body=[ast.Expr(value=ast.Call(func=ast.Attribute(value=ast.Name(id=acc, ctx=ast.Load()),
                                                                                attr='append', ctx=ast.Load()),
                                                             args=[elt_], keywords=[]))],
                               orelse=[])]
                for x in pre:
                    ast.copy_location(x, st)
                    ast.fix_missing_locations(x)
                blk[i - 1:i - 1] = pre
                i += len(pre)
                changed = True
        return changed

    def _blocks(self, fn: ast.AST):
        for n in ast.walk(fn):
            for field in ('body', 'orelse', 'finalbody'):
                blk = getattr(n, field, None)
                if isinstance(blk, list) and blk and isinstance(blk[0], ast.stmt):
                    yield blk
            if isinstance(n, ast.Try):
                for h in n.handlers:
                    yield h.body
            if isinstance(n, ast.Match):
                for c in n.cases:
                    yield c.body

    def _match_to_if(self, fn: ast.AST) -> bool:
        changed = False
        for blk in list(self._blocks(fn)):
            for i, st in enumerate(blk):
                if not isinstance(st, ast.Match) or not _simple(st.subject):
                    continue
                chain = self._cases_to_if(st)
                if chain is not None:
                    blk[i:i + 1] = chain
                    changed = True
                    break
        return changed

    def _cases_to_if(self, m: ast.Match) -> list[ast.stmt] | None:
        def test_of(p):
            if isinstance(p, ast.MatchValue):
                return ast.Compare(left=clone(m.subject), ops=[ast.Eq()], comparators=[p.value])
            if isinstance(p, ast.MatchSingleton):
                return ast.Compare(left=clone(m.subject), ops=[ast.Is()],
                                   comparators=[ast.Constant(value=p.value)])
            if isinstance(p, ast.MatchOr):
                ts = [test_of(x) for x in p.patterns]
                if any(t is None for t in ts):
                    return None
                return ast.BoolOp(op=ast.Or(), values=ts)
            return None
        head: ast.If | None = None
        cur: ast.If | None = None
        pre: list[ast.stmt] = []
        for c in m.cases:
            if c.guard is not None:
                return None
            p = c.pattern
            if isinstance(p, ast.MatchAs) and p.pattern is None:
                body = list(c.body)
                if p.name:
                    body = [ast.Assign(targets=[ast.Name(id=p.name, ctx=ast.Store())],
                                       value=clone(m.subject))] + body
                if cur is None:
                    return pre + body
                cur.orelse = body
                return [ast.copy_location(head, m)]
            t = test_of(p)
            if t is None:
                return None
            node = ast.If(test=t, body=list(c.body), orelse=[])
            ast.copy_location(node, c.body[0])
            if cur is None:
                head = cur = node
            else:
                cur.orelse = [node]
                cur = node
        return [ast.copy_location(head, m)] if head is not None else None

    def _fold_table_comprehensions(self, fn: ast.AST, mod, cls) -> bool:
        """`((flag, 'I', name) for flag, name, _ in TABLE)` over a constant table is the literal tuple of its
        rows; `(*literal, x)` is the flat literal"""
        changed = False
        outer = self

        class T(ast.NodeTransformer):
            def fold(inner, node):
                nonlocal changed
                if len(node.generators) != 1:
                    return None
                g = node.generators[0]
                if g.ifs or g.is_async:
                    return None
                tab = outer._const_table(g.iter, mod, cls)
                if tab is None or isinstance(tab[0], ast.Dict):
                    return None
                lit, owner = tab
                class_names = set()
                if owner is not None:
                    for x in owner.body:
                        if isinstance(x, ast.Assign):
                            class_names |= {t.id for t in x.targets if isinstance(t, ast.Name)}
                        elif isinstance(x, ast.AnnAssign) and isinstance(x.target, ast.Name):
                            class_names.add(x.target.id)
                rows = []
                for row in lit.elts:
                    mapping: dict[str, ast.AST] = {}

                    def bind(t, v) -> bool:
                        if isinstance(t, ast.Name):
                            mapping[t.id] = v
                            return True
                        if isinstance(t, (ast.Tuple, ast.List)) and isinstance(v, (ast.Tuple, ast.List)) \
                                and len(t.elts) == len(v.elts):
                            return all(bind(a, b) for a, b in zip(t.elts, v.elts))
                        return False
                    if not bind(g.target, row):
                        return None
                    if owner is not None:
                        class Q(ast.NodeTransformer):
                            def visit_Name(self, nd):
                                if nd.id in class_names:
                                    return ast.Attribute(value=ast.Name(id=owner.name, ctx=ast.Load()), attr=nd.id,
                                                         ctx=ast.Load())
                                return nd
                        mapping = {k: Q().visit(clone(v)) for k, v in mapping.items()}
                    holder = ast.Expr(value=clone(node.elt))
                    _Sub(mapping, {}).visit(holder)
                    if not outer._simple_elem(holder.value):
                        return None
                    rows.append(holder.value)
                    if len(rows) > 64:
                        return None
                changed = True
                return ast.copy_location(ast.Tuple(elts=rows, ctx=ast.Load()), node)

            def visit_GeneratorExp(inner, node):
                inner.generic_visit(node)
                return inner.fold(node) or node

            def visit_ListComp(inner, node):
                inner.generic_visit(node)
                got = inner.fold(node)
                if got is None:
                    return node
                return ast.copy_location(ast.List(elts=got.elts, ctx=ast.Load()), node)

            def visit_Call(inner, node):
                inner.generic_visit(node)
                if isinstance(node.func, ast.Name) and node.func.id in ('tuple', 'list') and len(node.args) == 1 \
                        and not node.keywords and isinstance(node.args[0], (ast.Tuple, ast.List)) \
                        and outer._simple_elem(node.args[0]):
                    cls_ = ast.Tuple if node.func.id == 'tuple' else ast.List
                    return ast.copy_location(cls_(elts=node.args[0].elts, ctx=ast.Load()), node)
                return node

            def splice(inner, node):
                nonlocal changed
                if any(isinstance(x, ast.Starred) and isinstance(x.value, (ast.Tuple, ast.List)) for x in node.elts):
                    elts = []
                    for x in node.elts:
                        if isinstance(x, ast.Starred) and isinstance(x.value, (ast.Tuple, ast.List)):
                            elts.extend(x.value.elts)
                        else:
                            elts.append(x)
                    node.elts = elts
                    changed = True
                return node

            def visit_Tuple(inner, node):
                inner.generic_visit(node)
                return inner.splice(node) if isinstance(node.ctx, ast.Load) else node

            def visit_List(inner, node):
                inner.generic_visit(node)
                return inner.splice(node) if isinstance(node.ctx, ast.Load) else node
        for blk in list(self._blocks(fn)):
            for st in blk:
                if isinstance(st, (ast.Assign, ast.AnnAssign, ast.Return, ast.Expr, ast.AugAssign)):
                    T().visit(st)
                elif isinstance(st, ast.For):
                    st.iter = T().visit(st.iter)
        return changed

    def _enum_member_value(self, e: ast.AST):
        """`Klass.MEMBER.value` where Klass is the one class of that name in the repository, derives from an
        Enum and binds MEMBER to a constant -> that Constant node, else None"""
        if not (isinstance(e, ast.Attribute) and e.attr == 'value' and isinstance(e.value, ast.Attribute)
                and isinstance(e.value.value, ast.Name)):
            return None
        cname, member = e.value.value.id, e.value.attr
        cache = getattr(self, '_enum_cache', None)
        if cache is None:
            cache = self._enum_cache = {}
        if cname not in cache:
            found = []
            for rel in self.repo.py_files('dashlive'):
                try:
                    src = self.repo.source(rel)
                    if f'class {cname}(' not in src:
                        continue
                    tree = self.repo.tree(rel)
                except Exception:       # noqa: BLE001
                    continue
                for n in getattr(tree, 'body', []):
                    if isinstance(n, ast.ClassDef) and n.name == cname:
                        found.append(n)
            cache[cname] = found[0] if len(found) == 1 else None
        cdef = cache[cname]
        if cdef is None or not any('Enum' in ast.unparse(b) for b in cdef.bases):
            return None
        vals = [x.value for x in cdef.body if isinstance(x, ast.Assign) and len(x.targets) == 1
                and isinstance(x.targets[0], ast.Name) and x.targets[0].id == member]
        if len(vals) == 1 and isinstance(vals[0], ast.Constant) and isinstance(vals[0].value, (str, int)):
            return ast.copy_location(ast.Constant(value=vals[0].value), e)
        return None

    def _lookup_table(self, e: ast.AST, mod, cls):
        """a class / module level name spelt as a constant and bound once to a dict display whose keys are
        constants (or tuples of constants) and whose values are constants, names, attributes or tuples of
        those -> (dict node, owner class or None) or None"""
        owner = None
        if isinstance(e, ast.Attribute) and isinstance(e.value, ast.Name):
            if e.value.id in ('self', 'cls', 'clz') or (cls is not None and e.value.id == cls.name):
                owner = cls
            else:
                owner = next((c for c in getattr(mod, 'body', []) if isinstance(c, ast.ClassDef)
                              and c.name == e.value.id), None)
            name = e.attr
            if owner is None:
                return None
        elif isinstance(e, ast.Name):
            name = e.id
        else:
            return None
        if not name.isupper():
            return None
        body = owner.body if owner is not None else getattr(mod, 'body', [])
        defs = [st.value for st in body
                if (isinstance(st, ast.Assign) and len(st.targets) == 1 and isinstance(st.targets[0], ast.Name)
                    and st.targets[0].id == name)
                or (isinstance(st, ast.AnnAssign) and isinstance(st.target, ast.Name) and st.target.id == name
                    and st.value is not None)]
        # the table must not be changed anywhere in its module (TABLE[k] = .., TABLE.update(..))
        for n in ast.walk(mod) if mod is not None else []:
            if isinstance(n, (ast.Subscript, ast.Attribute)) and isinstance(getattr(n, 'ctx', None), (ast.Store, ast.Del)):
                base = n.value
                if (isinstance(base, ast.Name) and base.id == name) or (isinstance(base, ast.Attribute) and base.attr == name):
                    return None
            if isinstance(n, ast.Call) and isinstance(n.func, ast.Attribute) \
                    and n.func.attr in ('update', 'pop', 'popitem', 'clear', 'setdefault', '__setitem__') \
                    and ((isinstance(n.func.value, ast.Name) and n.func.value.id == name)
                         or (isinstance(n.func.value, ast.Attribute) and n.func.value.attr == name)):
                return None
        if len(defs) != 1 or not isinstance(defs[0], ast.Dict) or not defs[0].keys or len(defs[0].keys) > 8:
            return None
        lit = defs[0]
        if any(k is not None and not isinstance(k, (ast.Constant, ast.Tuple)) for k in lit.keys):
            # Colour.RED.value as a key: the constant the enumeration member is bound to
            keys2 = []
            for k in lit.keys:
                v = self._enum_member_value(k) if k is not None and not isinstance(k, (ast.Constant, ast.Tuple)) else k
                if v is None:
                    return None
                keys2.append(v)
            lit = ast.copy_location(ast.Dict(keys=keys2, values=lit.values), lit)

        def const_key(k) -> bool:
            if isinstance(k, ast.Constant):
                return isinstance(k.value, (str, int, bool, bytes)) or k.value is None
            return isinstance(k, ast.Tuple) and bool(k.elts) and all(const_key(x) for x in k.elts)
        if not all(k is not None and const_key(k) for k in lit.keys) or not all(self._simple_elem(v) for v in lit.values):
            return None
        return lit, owner

    def _is_table_lookup(self, st: ast.stmt, mod, cls) -> bool:
        if not (isinstance(st, (ast.Assign, ast.AnnAssign)) and getattr(st, 'value', None) is not None):
            return False
        v = st.value
        tab = None
        if isinstance(v, ast.Subscript) and not isinstance(v.slice, ast.Slice):
            tab = v.value
        elif isinstance(v, ast.Call) and isinstance(v.func, ast.Attribute) and v.func.attr == 'get' \
                and 1 <= len(v.args) <= 2 and not v.keywords:
            tab = v.func.value
        return tab is not None and self._lookup_table(tab, mod, cls) is not None

    def _sink_rest_after_lookup(self, fn: ast.AST, mod, cls) -> bool:
        """x = None; if c: x = TABLE.get(k)   <rest that uses x>: the rest of the block moves into both
        branches of the `if` (so that the lookup can be split into one branch per table value with the
        uses of x behind it)"""
        for blk in list(self._blocks(fn)):
            for i, st in enumerate(blk):
                if not (isinstance(st, ast.If) and st.body and self._is_table_lookup(st.body[-1], mod, cls)):
                    continue
                rest = blk[i + 1:]
                if not rest or sum(1 for t_ in rest for _ in ast.walk(t_) if isinstance(_, ast.stmt)) > 30:
                    continue
                tg = st.body[-1].targets[0] if isinstance(st.body[-1], ast.Assign) else st.body[-1].target
                names = {x.id for x in ast.walk(tg) if isinstance(x, ast.Name)}
                if not any(isinstance(x, ast.Name) and x.id in names and isinstance(x.ctx, ast.Load)
                           for t_ in rest for x in ast.walk(t_)):
                    continue
                st.body = list(st.body) + rest
                st.orelse = list(st.orelse) + clone(rest)
                del blk[i + 1:]
                return True
        return False

    def _propagate_constant_locals(self, fn: ast.AST) -> bool:
        """x = None (or another constant) followed, in the same block and before x is bound again, by
        `if x is None:` / `if x:` tests: the tests read the constant"""
        changed = False
        for blk in list(self._blocks(fn)):
            for i, st in enumerate(blk):
                tg0 = st.targets[0] if isinstance(st, ast.Assign) and len(st.targets) == 1 else (
                    st.target if isinstance(st, ast.AnnAssign) else None)
                if not (isinstance(tg0, ast.Name) and isinstance(getattr(st, 'value', None), ast.Constant)
                        and (st.value.value is None or isinstance(st.value.value, (bool, str, int)))):
                    continue
                x = tg0.id
                for later in blk[i + 1:]:
                    if isinstance(later, ast.If):
                        hit = [n for n in ast.walk(later.test) if isinstance(n, ast.Name) and n.id == x]
                        if hit and not any(isinstance(n, (ast.NamedExpr, ast.Lambda)) for n in ast.walk(later.test)):
                            class R(ast.NodeTransformer):
                                def visit_Name(self, node):
                                    if node.id == x and isinstance(node.ctx, ast.Load):
                                        return ast.copy_location(ast.Constant(value=st.value.value), node)
                                    return node
                            later.test = R().visit(later.test)
                            changed = True
                    if any(isinstance(n, ast.Name) and n.id == x and isinstance(n.ctx, (ast.Store, ast.Del))
                           for n in ast.walk(later)) or isinstance(later, (ast.While, ast.For, ast.Try)):
                        break
        return changed

    def _name_chained_ctor_receiver(self, fn: ast.AST, mod) -> bool:
        """`x = Helper(a).run(b)` where Helper is a class of this module that the rules were not written against:
        the object gets a name first (`_hN = Helper(a); x = _hN.run(b)`) so that constructor and method can be
        merged into the caller like any `obj = Helper(a)` / `obj.run(b)` pair"""
        new_classes = {c.name for c in getattr(mod, 'body', []) if isinstance(c, ast.ClassDef)}
        if self.baseline:
            new_classes &= set(self.new_class_names())
        if not new_classes:
            return False
        changed = False
        for blk in list(self._blocks(fn)):
            i = 0
            while i < len(blk):
                st = blk[i]
                i += 1
                if not (isinstance(st, (ast.Assign, ast.AnnAssign, ast.Expr, ast.Return)) and getattr(st, 'value', None) is not None):
                    continue
                call = st.value
                if not (isinstance(call, ast.Call) and isinstance(call.func, ast.Attribute) and isinstance(call.func.value, ast.Call)
                        and isinstance(call.func.value.func, ast.Name) and call.func.value.func.id in new_classes):
                    continue
                taken_ = {x.id for x in ast.walk(fn) if isinstance(x, ast.Name)}
                n = 1
                while f'_h{n}' in taken_:
                    n += 1
                name = f'_h{n}'
                ctor = call.func.value
                call.func.value = ast.copy_location(ast.Name(id=name, ctx=ast.Load()), ctor)
                blk.insert(i - 1, ast.copy_location(ast.Assign(targets=[ast.Name(id=name, ctx=ast.Store())], value=ctor), st))
                i += 1
                changed = True
        return changed

    def _hoist_table_lookup_arg(self, fn: ast.AST, mod, cls) -> bool:
        """`x = getattr(obj, TABLE.get(key, 'd'))` / `x = f(a, TABLE[key])`: the lookup in a constant table that
        is an argument of the statement's call - with nothing before it that could have an effect - gets a name
        first (`_hN = TABLE.get(key, 'd')`), so that it can be split into one branch per table value"""
        changed = False
        for blk in list(self._blocks(fn)):
            i = 0
            while i < len(blk):
                st = blk[i]
                i += 1
                if not (isinstance(st, (ast.Assign, ast.AnnAssign, ast.Expr, ast.Return)) and getattr(st, 'value', None) is not None):
                    continue
                call = st.value
                if not (isinstance(call, ast.Call) and not any(isinstance(x, (ast.Call, ast.Await)) for x in ast.walk(call.func))
                        and not call.keywords):
                    continue
                hit = None
                for j, a in enumerate(call.args):
                    is_get = isinstance(a, ast.Call) and isinstance(a.func, ast.Attribute) and a.func.attr == 'get' \
                        and 1 <= len(a.args) <= 2 and not a.keywords and self._lookup_table(a.func.value, mod, cls) is not None \
                        and not any(isinstance(x, (ast.Call, ast.Await, ast.NamedExpr)) for y in a.args for x in ast.walk(y))
                    is_sub = isinstance(a, ast.Subscript) and not isinstance(a.slice, ast.Slice) \
                        and self._lookup_table(a.value, mod, cls) is not None \
                        and not any(isinstance(x, (ast.Call, ast.Await, ast.NamedExpr)) for x in ast.walk(a.slice))
                    if is_get or is_sub:
                        hit = j
                        break
                    if any(isinstance(x, (ast.Call, ast.Await, ast.NamedExpr, ast.Subscript)) for x in ast.walk(a)):
                        break
                if hit is None:
                    continue
                taken_ = {x.id for x in ast.walk(fn) if isinstance(x, ast.Name)}
                n = 1
                while f'_h{n}' in taken_:
                    n += 1
                name = f'_h{n}'
                look = call.args[hit]
                call.args[hit] = ast.copy_location(ast.Name(id=name, ctx=ast.Load()), look)
                blk.insert(i - 1, ast.copy_location(ast.Assign(targets=[ast.Name(id=name, ctx=ast.Store())], value=look), st))
                i += 1
                changed = True
        return changed

    def _name_table_callee(self, fn: ast.AST, mod, cls) -> bool:
        """`x = TABLE[key](args)` / `TABLE[key](args)` / `return TABLE[key](args)` over a constant dict:
        the function or class picked from the table gets a name first (`_hN = TABLE[key]`), so that the
        lookup can be split into one branch per table value like any other"""
        changed = False
        for blk in list(self._blocks(fn)):
            i = 0
            while i < len(blk):
                st = blk[i]
                i += 1
                if not (isinstance(st, (ast.Assign, ast.AnnAssign, ast.Expr, ast.Return)) and getattr(st, 'value', None) is not None):
                    continue
                call = st.value
                if not (isinstance(call, ast.Call) and isinstance(call.func, ast.Subscript)
                        and not isinstance(call.func.slice, ast.Slice)):
                    continue
                if self._lookup_table(call.func.value, mod, cls) is None:
                    continue
                if any(isinstance(x, (ast.Call, ast.Await, ast.NamedExpr, ast.Yield)) for x in ast.walk(call.func.slice)):
                    continue
                taken_ = {x.id for x in ast.walk(fn) if isinstance(x, ast.Name)}
                n = 1
                while f'_h{n}' in taken_:
                    n += 1
                name = f'_h{n}'
                look = call.func
                call.func = ast.copy_location(ast.Name(id=name, ctx=ast.Load()), look)
                blk.insert(i - 1, ast.copy_location(ast.Assign(targets=[ast.Name(id=name, ctx=ast.Store())], value=look), st))
                i += 1
                changed = True
        return changed

    def _split_on_table_lookup(self, fn: ast.AST, mod, cls) -> bool:
        """`x = TABLE[key]` / `a, b = TABLE[key]` / `x = TABLE.get(key[, default])` over a constant dict,
        followed by code that uses x: one branch per distinct table value (`if key == K1: <rest with V1>
        elif ..`), the rest of the block copied into each branch with the value written in.  A function
        picked from a table becomes a direct call (and can be inlined), a status / text pair becomes
        constants on each path."""
        for blk in list(self._blocks(fn)):
            for i, st in enumerate(blk):
                if not (isinstance(st, (ast.Assign, ast.AnnAssign)) and getattr(st, 'value', None) is not None):
                    continue
                tg = st.targets[0] if isinstance(st, ast.Assign) and len(st.targets) == 1 else getattr(st, 'target', None)
                if isinstance(tg, ast.Name):
                    names = [tg.id]
                elif isinstance(tg, (ast.Tuple, ast.List)) and all(isinstance(x, ast.Name) for x in tg.elts):
                    names = [x.id for x in tg.elts]
                else:
                    continue
                v = st.value
                strict, default, key, tab = True, None, None, None
                if isinstance(v, ast.Subscript) and not isinstance(v.slice, ast.Slice):
                    tab, key = v.value, v.slice
                elif isinstance(v, ast.Call) and isinstance(v.func, ast.Attribute) and v.func.attr == 'get' \
                        and 1 <= len(v.args) <= 2 and not v.keywords:
                    tab, key, strict = v.func.value, v.args[0], False
                    default = v.args[1] if len(v.args) == 2 else ast.Constant(value=None)
                    if not self._simple_elem(default):
                        continue
                else:
                    continue
                got = self._lookup_table(tab, mod, cls)
                if got is None:
                    continue
                lit, owner = got
                if any(isinstance(x, (ast.Call, ast.Await, ast.NamedExpr, ast.Yield)) for x in ast.walk(key)):
                    continue
                params = {a.arg for a in fn.args.args + fn.args.kwonlyargs} if hasattr(fn, 'args') else set()
                stores: dict[str, int] = {}
                for n in ast.walk(fn):
                    if isinstance(n, ast.Name) and isinstance(n.ctx, (ast.Store, ast.Del)):
                        stores[n.id] = stores.get(n.id, 0) + 1
                if any(nm in params for nm in names):
                    continue
                tail = blk[i + 1:]
                if not tail or sum(1 for t_ in tail for _ in ast.walk(t_) if isinstance(_, ast.stmt)) > 80:
                    continue
                in_tail = {id(x) for t_ in tail for x in ast.walk(t_)}
                # the names are not bound again in the rest of the block ...
                if any(isinstance(x, ast.Name) and x.id in names and isinstance(x.ctx, (ast.Store, ast.Del))
                       for t_ in tail for x in ast.walk(t_)):
                    continue
                # ... and a read anywhere else sees another assignment of its own (a copy of this code in
                # another branch): some earlier statement of a block around it binds the name

                def bound_before(x: ast.AST) -> bool:
                    for b2 in self._blocks(fn):
                        for j, s2 in enumerate(b2):
                            if any(y is x for y in ast.walk(s2)):
                                for s1 in b2[:j]:
                                    if s1 is not st and isinstance(s1, (ast.Assign, ast.AnnAssign)) and any(
                                            isinstance(y, ast.Name) and y.id == x.id and isinstance(y.ctx, ast.Store)
                                            for y in ast.walk(s1)):
                                        return True
                    return False
                if any(isinstance(x, ast.Name) and x.id in names and isinstance(x.ctx, ast.Load) and id(x) not in in_tail
                       and not bound_before(x) for x in ast.walk(fn)):
                    continue
                # names the key reads must not be names of the key's own table values (no capture issues)
                class_names = set()
                if owner is not None:
                    for x in owner.body:
                        if isinstance(x, ast.Assign):
                            class_names |= {t.id for t in x.targets if isinstance(t, ast.Name)}
                        elif isinstance(x, ast.AnnAssign) and isinstance(x.target, ast.Name):
                            class_names.add(x.target.id)

                def qualify(val: ast.AST) -> ast.AST:
                    if owner is None:
                        return clone(val)

                    class Q(ast.NodeTransformer):
                        def visit_Name(self, node):
                            if node.id in class_names:
                                return ast.Attribute(value=ast.Name(id=owner.name, ctx=ast.Load()), attr=node.id,
                                                     ctx=ast.Load())
                            return node
                    return Q().visit(clone(val))

                def boolish(e: ast.AST) -> bool:
                    if isinstance(e, (ast.Compare, ast.BoolOp)) or (isinstance(e, ast.UnaryOp) and isinstance(e.op, ast.Not)):
                        return True
                    if isinstance(e, ast.Name):
                        ds = [a_ for a_ in ast.walk(fn) if isinstance(a_, (ast.Assign, ast.AnnAssign))
                              and getattr(a_, 'value', None) is not None
                              and any(isinstance(t_, ast.Name) and t_.id == e.id
                                      for t_ in (a_.targets if isinstance(a_, ast.Assign) else [a_.target]))]
                        return bool(ds) and all(boolish(d.value) for d in ds) and stores.get(e.id) == len(ds)
                    return False

                def test_of(kexpr: ast.AST, k: ast.AST) -> ast.AST | None:
                    if isinstance(k, ast.Tuple):
                        if not (isinstance(kexpr, ast.Tuple) and len(kexpr.elts) == len(k.elts)):
                            return None
                        parts = [test_of(a_, b_) for a_, b_ in zip(kexpr.elts, k.elts)]
                        if any(p_ is None for p_ in parts):
                            return None
                        return ast.BoolOp(op=ast.And(), values=parts) if len(parts) > 1 else parts[0]
                    if isinstance(k.value, bool) and boolish(kexpr):
                        return clone(kexpr) if k.value else ast.UnaryOp(op=ast.Not(), operand=clone(kexpr))
                    if isinstance(k.value, bool):
                        return None             # 1 == True: a bool key with a key of unknown type is not split
                    return ast.Compare(left=clone(kexpr), ops=[ast.Eq()], comparators=[clone(k)])
                groups: list[tuple[ast.AST, list[ast.AST]]] = []          # (value, tests)
                ok = True
                for k, val in zip(lit.keys, lit.values):
                    t = test_of(key, k)
                    if t is None:
                        ok = False
                        break
                    for g in groups:
                        if ast.dump(g[0]) == ast.dump(val):
                            g[1].append(t)
                            break
                    else:
                        groups.append((val, [t]))
                if not ok:
                    continue

                def branch(val: ast.AST) -> list[ast.stmt] | None:
                    if len(names) > 1 and isinstance(val, (ast.Name, ast.Attribute)):
                        # a row kept under its own constant name (DEFAULT_ROW = ('Q', 8))
                        ref = self._const_table(val, mod, owner if owner is not None else cls)
                        if ref is not None and isinstance(ref[0], (ast.Tuple, ast.List)):
                            val = ref[0]
                    val = qualify(val)
                    if len(names) == 1:
                        mapping = {names[0]: val}
                    else:
                        if not (isinstance(val, (ast.Tuple, ast.List)) and len(val.elts) == len(names)):
                            return None
                        mapping = dict(zip(names, val.elts))
                    body = clone(tail)
                    holder = ast.Module(body=body, type_ignores=[])
                    _Sub(mapping, {}).visit(holder)
                    return holder.body
                arms = []
                for val, tests in groups:
                    b_ = branch(val)
                    if b_ is None:
                        ok = False
                        break
                    arms.append((ast.BoolOp(op=ast.Or(), values=tests) if len(tests) > 1 else tests[0], b_))
                if not ok:
                    continue
                if strict:
                    last: list[ast.stmt] = [ast.Raise(exc=ast.Call(func=ast.Name(id='KeyError', ctx=ast.Load()),
                                                                   args=[clone(key)], keywords=[]), cause=None)]
                    last[0]._implicit = True        # a failing d[key]: the source has no raise statement
                else:
                    last = branch(default)
                    if last is None:
                        continue
                # a key made of truth values with every combination listed: the last arm needs no test
                def truth_slots(kexpr) -> int | None:
                    if isinstance(kexpr, ast.Tuple):
                        return len(kexpr.elts) if all(boolish(x) for x in kexpr.elts) else None
                    return 1 if boolish(kexpr) else None
                slots = truth_slots(key)
                combos = set()
                for k in lit.keys:
                    ks = k.elts if isinstance(k, ast.Tuple) else [k]
                    if all(isinstance(x, ast.Constant) and isinstance(x.value, bool) for x in ks):
                        combos.add(tuple(x.value for x in ks))
                exhaustive = slots is not None and len(combos) == 2 ** slots and all(len(c_) == slots for c_ in combos)
                if exhaustive and len(arms) == 1:
                    blk[i:] = arms[0][1]
                    return True
                node = None
                for n_arm, (t, b_) in enumerate(reversed(arms)):
                    if exhaustive and n_arm == 0:
                        last = b_
                        continue
                    node = ast.If(test=t, body=b_, orelse=([node] if node is not None else last))
                ast.copy_location(node, st)
                ast.fix_missing_locations(node)
                blk[i:] = [node]
                return True
        return False

    def _split_tuple_assign(self, fn: ast.AST) -> bool:
        """`a, b = (x, y)` where neither x nor y reads a or b: `a = x; b = y`"""
        changed = False
        for blk in list(self._blocks(fn)):
            i = 0
            while i < len(blk):
                st = blk[i]
                i += 1
                if not (isinstance(st, ast.Assign) and len(st.targets) == 1
                        and isinstance(st.targets[0], (ast.Tuple, ast.List))
                        and isinstance(st.value, (ast.Tuple, ast.List))
                        and len(st.targets[0].elts) == len(st.value.elts) and len(st.value.elts) > 1
                        and all(isinstance(t, ast.Name) or (isinstance(t, ast.Subscript) and isinstance(t.value, ast.Name)
                                                            and isinstance(t.slice, ast.Constant))
                                for t in st.targets[0].elts)
                        and not any(isinstance(v, ast.Starred) for v in st.value.elts)):
                    continue
                # d['a'], d['b'] = (x, y): the containers count as the names written
                tnames = {t.id if isinstance(t, ast.Name) else t.value.id for t in st.targets[0].elts}
                keys_ = [ast.unparse(t) for t in st.targets[0].elts]
                if len(set(keys_)) != len(keys_):
                    continue
                if any(isinstance(x, ast.Name) and x.id in tnames for v in st.value.elts for x in ast.walk(v)):
                    continue
                if any(isinstance(x, (ast.Lambda, ast.NamedExpr, ast.Yield, ast.Await)) for v in st.value.elts
                       for x in ast.walk(v)):
                    continue
                new = [ast.copy_location(ast.Assign(targets=[t], value=v), st)
                       for t, v in zip(st.targets[0].elts, st.value.elts)]
                blk[i - 1:i] = new
                i += len(new) - 1
                changed = True
        return changed

    def _sink_table_loops(self, fn: ast.AST, mod, cls) -> bool:
        """if c: t = TABLE_A / elif d: t = TABLE_B / else: t = () ; for x in t: body  (a table chosen by
        a helper, after inlining): the loop moves into each branch, over that branch's table.  Only
        when `t` is read nowhere else."""
        changed = False
        for blk in list(self._blocks(fn)):
            for i in range(len(blk) - 1):
                chain, loop = blk[i], blk[i + 1]
                if not (isinstance(chain, ast.If) and isinstance(loop, ast.For) and isinstance(loop.iter, ast.Name)
                        and not loop.orelse):
                    continue
                t = loop.iter.id
                leaves: list[list[ast.stmt]] = []

                def collect(node: ast.If) -> bool:
                    for branch in (node.body, node.orelse):
                        if len(branch) == 1 and isinstance(branch[0], ast.If) and branch is node.orelse:
                            if not collect(branch[0]):
                                return False
                        elif branch and isinstance(branch[-1], ast.Assign) and len(branch[-1].targets) == 1 \
                                and isinstance(branch[-1].targets[0], ast.Name) and branch[-1].targets[0].id == t \
                                and (self._const_table(branch[-1].value, mod, cls) is not None
                                     or isinstance(branch[-1].value, ast.Call)) \
                                and not any(isinstance(x, ast.Name) and x.id == t for s_ in branch[:-1] for x in ast.walk(s_)):
                            # the table, or the call that produces what is iterated over (a generator helper chosen
                            # per branch), is the last thing the branch does: the loop that follows can move in
                            leaves.append(branch)
                        else:
                            return False
                    return True
                if not collect(chain) or len(leaves) < 2:
                    continue
                reads = [n for n in ast.walk(fn) if isinstance(n, ast.Name) and n.id == t and isinstance(n.ctx, ast.Load)]
                if len(reads) != 1:
                    continue
                only_tables = all(len(b_) == 1 and self._const_table(b_[-1].value, mod, cls) is not None for b_ in leaves)
                if only_tables and any(isinstance(n, (ast.Break, ast.Return, ast.Yield, ast.YieldFrom)) for n in ast.walk(loop)):
                    continue
                for branch in leaves:
                    lp = clone(loop)
                    lp.iter = branch[-1].value
                    branch[-1] = lp
                del blk[i + 1]
                changed = True
                break
        return changed

    def _propagate_field_copies(self, fn: ast.AST) -> bool:
        """`rec__field = y` (a local made by the record replacement that merely copies another local): the
        reads of rec__field, all in the rest of the same block, read y - provided neither name is bound
        again before the block ends"""
        changed = False
        for blk in list(self._blocks(fn)):
            i = 0
            while i < len(blk):
                st = blk[i]
                i += 1
                if not (isinstance(st, ast.Assign) and len(st.targets) == 1 and isinstance(st.targets[0], ast.Name)
                        and isinstance(st.value, ast.Name)
                        and (('__' in st.targets[0].id and not st.targets[0].id.startswith('__'))
                             or ('__' in st.value.id and not st.value.id.startswith('__')))):
                    continue
                x, y = st.targets[0].id, st.value.id
                if x == y:
                    continue
                rest = blk[i:]
                inside = {id(n) for s2 in rest for n in ast.walk(s2)}
                loads = [n for n in ast.walk(fn) if isinstance(n, ast.Name) and n.id == x and isinstance(n.ctx, ast.Load)]
                if not loads or any(id(n) not in inside for n in loads):
                    continue
                if any(isinstance(n, ast.Name) and n.id in (x, y) and isinstance(n.ctx, (ast.Store, ast.Del))
                       for s2 in rest for n in ast.walk(s2)):
                    continue
                # a loop around the block could carry a rebinding of y back to the copy: the copy is
                # executed again on every iteration before its reads, so that is harmless
                for n in loads:
                    n.id = y
                del blk[i - 1]
                i -= 1
                changed = True
        return changed

    def _forward_adjacent_copies(self, fn: ast.AST) -> bool:
        """`t = E; x = t` where t (a name introduced by the normal form: `_yf1`, `_h2`, `_j1x`) is read
        nowhere else: `x = E`"""
        changed = False
        loads: dict[str, int] = {}
        for n in ast.walk(fn):
            if isinstance(n, ast.Name) and isinstance(n.ctx, ast.Load):
                loads[n.id] = loads.get(n.id, 0) + 1
        for blk in list(self._blocks(fn)):
            i = 0
            while i + 1 < len(blk):
                a, b = blk[i], blk[i + 1]
                if isinstance(a, ast.Assign) and len(a.targets) == 1 and isinstance(a.targets[0], ast.Name) \
                        and a.targets[0].id.startswith('_') and isinstance(b, ast.Assign) and len(b.targets) == 1 \
                        and isinstance(b.value, ast.Name) and b.value.id == a.targets[0].id:
                    t = a.targets[0].id
                    n_pairs = sum(1 for blk2 in self._blocks(fn) for j in range(len(blk2) - 1)
                                  if isinstance(blk2[j], ast.Assign) and len(blk2[j].targets) == 1
                                  and isinstance(blk2[j].targets[0], ast.Name) and blk2[j].targets[0].id == t
                                  and isinstance(blk2[j + 1], ast.Assign) and isinstance(blk2[j + 1].value, ast.Name)
                                  and blk2[j + 1].value.id == t)
                    if loads.get(t, 0) == n_pairs:
                        b.value = a.value
                        del blk[i]
                        changed = True
                        continue
                i += 1
        return changed

    def _forward_argument_temps(self, fn: ast.AST) -> bool:
        """`rep__helper = video.representations[0]; x['k'] = f(.., rep__helper)`: a name made for a parameter of
        an inlined helper (`param__helper`), bound to a call-free expression and read exactly once, in the very
        next simple statement - every time it is bound: the expression is written where the name is read.  (The
        same helper inlined three times binds the same name three times; no single definition exists.)"""
        changed = False
        for _ in range(4):
            loads: dict[str, int] = {}
            stores: dict[str, int] = {}
            for n in ast.walk(fn):
                if isinstance(n, ast.Name):
                    d = loads if isinstance(n.ctx, ast.Load) else stores
                    d[n.id] = d.get(n.id, 0) + 1
            pairs: dict[str, list] = {}
            for blk in self._blocks(fn):
                for i in range(len(blk) - 1):
                    a, b = blk[i], blk[i + 1]
                    if isinstance(a, ast.Assign) and len(a.targets) == 1 and isinstance(a.targets[0], ast.Name) \
                            and '__' in a.targets[0].id and not a.targets[0].id.startswith('__') \
                            and isinstance(b, (ast.Assign, ast.AnnAssign, ast.Expr, ast.Return, ast.AugAssign)) \
                            and not any(isinstance(x, (ast.Call, ast.Await, ast.Yield, ast.NamedExpr, ast.Lambda, ast.ListComp,
                                                       ast.GeneratorExp, ast.DictComp, ast.SetComp)) for x in ast.walk(a.value)):
                        t = a.targets[0].id
                        hits = [x for x in ast.walk(b) if isinstance(x, ast.Name) and x.id == t and isinstance(x.ctx, ast.Load)]
                        written = {x.id for x in ast.walk(b) if isinstance(x, ast.Name) and isinstance(x.ctx, ast.Store)}
                        read_by_value = {x.id for x in ast.walk(a.value) if isinstance(x, ast.Name)}
                        if len(hits) == 1 and not (written & (read_by_value | {t})):
                            pairs.setdefault(t, []).append((blk, a, b, hits[0]))
            done = False
            for t, ps in pairs.items():
                if len(ps) == stores.get(t, 0) == loads.get(t, 0):
                    for blk, a, b, hit in ps:
                        class S(ast.NodeTransformer):
                            def visit_Name(self, node, _hit=hit, _v=a.value):
                                return ast.copy_location(clone(_v), node) if node is _hit else node
                        S().visit(b)
                        blk.remove(a)
                    done = changed = True
                    break
            if not done:
                break
        return changed

    def _extend_of_generator(self, fn: ast.AST) -> bool:
        """`xs.extend(E for v in IT if C)` (generator expression or list comprehension, one clause) is
        `for v in IT: if C: xs.append(E)`; `xs.extend(self.gen(a))` with a method call is
        `for _x in self.gen(a): xs.append(_x)` (merged with the generator body when it is one)"""
        changed = False
        for blk in list(self._blocks(fn)):
            for i, st in enumerate(blk):
                if isinstance(st, ast.Expr) and isinstance(st.value, ast.Call) and isinstance(st.value.func, ast.Attribute) \
                        and st.value.func.attr == 'extend' and len(st.value.args) == 1 and not st.value.keywords \
                        and isinstance(st.value.args[0], ast.Call) and isinstance(st.value.args[0].func, ast.Attribute) \
                        and isinstance(st.value.args[0].func.value, ast.Name) and st.value.args[0].func.value.id in ('self', 'cls', 'clz') \
                        and self.baseline and st.value.args[0].func.attr not in self._baseline_names_set() \
                        and not any(isinstance(x, (ast.Call, ast.Await)) for x in ast.walk(st.value.func.value)):
                    self._tmp = getattr(self, '_tmp', 0) + 1
                    item = f'_e{self._tmp}'
                    loop = ast.For(target=ast.Name(id=item, ctx=ast.Store()), iter=st.value.args[0],
                                   body=[ast.Expr(value=ast.Call(func=ast.Attribute(value=clone(st.value.func.value), attr='append',
                                                                                    ctx=ast.Load()),
                                                                 args=[ast.Name(id=item, ctx=ast.Load())], keywords=[]))],
                                   orelse=[], type_comment=None)
                    blk[i] = ast.fix_missing_locations(ast.copy_location(loop, st))
                    changed = True
                    continue
                if not (isinstance(st, ast.Expr) and isinstance(st.value, ast.Call) and isinstance(st.value.func, ast.Attribute)
                        and st.value.func.attr == 'extend' and len(st.value.args) == 1 and not st.value.keywords
                        and isinstance(st.value.args[0], (ast.GeneratorExp, ast.ListComp))
                        and len(st.value.args[0].generators) == 1 and not st.value.args[0].generators[0].is_async):
                    continue
                recv = st.value.func.value
                if any(isinstance(x, (ast.Call, ast.Await)) for x in ast.walk(recv)):
                    continue
                comp = st.value.args[0]
                g = comp.generators[0]
                app = ast.Expr(value=ast.Call(func=ast.Attribute(value=clone(recv), attr='append', ctx=ast.Load()),
                                              args=[comp.elt], keywords=[]))
                body: list[ast.stmt] = [app]
                for c in reversed(g.ifs):
                    body = [ast.If(test=c, body=body, orelse=[])]
                loop = ast.For(target=g.target, iter=g.iter, body=body, orelse=[], type_comment=None)
                for x in ast.walk(loop):
                    if isinstance(x, ast.Name) and isinstance(x.ctx, ast.Store):
                        pass
                blk[i] = ast.fix_missing_locations(ast.copy_location(loop, st))
                changed = True
        return changed

    def _enumerate_of_generator_call(self, fn: ast.AST, rel, mod, cls) -> bool:
        """`for i, v in enumerate(self.gen(a)[, start]): BODY` with a new generator helper is
        `i = start; for v in self.gen(a): BODY; i += 1` (BODY without `continue` and without a store to i), so
        that the helper can be written out in the loop"""
        changed = False
        for blk in list(self._blocks(fn)):
            i = 0
            while i < len(blk):
                st = blk[i]
                i += 1
                if not (isinstance(st, ast.For) and not st.orelse and isinstance(st.iter, ast.Call)
                        and isinstance(st.iter.func, ast.Name) and st.iter.func.id == 'enumerate'
                        and 1 <= len(st.iter.args) <= 2 and isinstance(st.iter.args[0], ast.Call)
                        and isinstance(st.target, ast.Tuple) and len(st.target.elts) == 2
                        and isinstance(st.target.elts[0], ast.Name)):
                    continue
                start = st.iter.args[1] if len(st.iter.args) == 2 else next(
                    (k.value for k in st.iter.keywords if k.arg == 'start'), ast.Constant(value=0))
                inner = st.iter.args[0]
                r = self._resolve(inner, fn, rel, mod, cls)
                if r is None or not self._acceptable_generator(r[0]):
                    continue
                cnt = st.target.elts[0].id
                if any(isinstance(x, ast.Continue) for b in st.body for x in ast.walk(b)) or any(
                        isinstance(x, ast.Name) and x.id == cnt and isinstance(x.ctx, (ast.Store, ast.Del))
                        for b in st.body for x in ast.walk(b)):
                    continue
                st.target = st.target.elts[1]
                st.iter = inner
                st.body.append(ast.copy_location(ast.AugAssign(target=ast.Name(id=cnt, ctx=ast.Store()), op=ast.Add(),
                                                               value=ast.Constant(value=1)), st))
                blk.insert(i - 1, ast.copy_location(ast.Assign(targets=[ast.Name(id=cnt, ctx=ast.Store())], value=start), st))
                ast.fix_missing_locations(st)
                i += 1
                changed = True
        return changed

    def _collapse_copy_chains(self, fn: ast.AST) -> bool:
        """`y = E` ... `x = y` in the same block, where `y` (a name the inliner made: `<local>__<helper>`) is
        stored once and read only by that copy, and `x` is bound only by the copy and not read before it:
        `x = E` at the place of the first statement, the copy goes away"""
        changed = False
        stores: dict[str, int] = {}
        loads: dict[str, int] = {}
        for n in ast.walk(fn):
            if isinstance(n, ast.Name):
                d = stores if isinstance(n.ctx, (ast.Store, ast.Del)) else loads
                d[n.id] = d.get(n.id, 0) + 1
        params = {a.arg for a in ast.walk(fn) if isinstance(a, ast.arg)}
        for blk in list(self._blocks(fn)):
            j = 0
            while j < len(blk):
                b = blk[j]
                if not (isinstance(b, (ast.Assign, ast.AnnAssign)) and isinstance(getattr(b, 'value', None), ast.Name)
                        and isinstance(b.targets[0] if isinstance(b, ast.Assign) and len(b.targets) == 1 else getattr(b, 'target', None), ast.Name)):
                    j += 1
                    continue
                x = (b.targets[0] if isinstance(b, ast.Assign) else b.target).id
                y = b.value.id
                if '__' not in y or y in params or x in params or x == y \
                        or stores.get(y) != 1 or loads.get(y) != 1 or stores.get(x) != 1:
                    j += 1
                    continue
                i = next((k for k in range(j) if isinstance(blk[k], (ast.Assign, ast.AnnAssign))
                          and isinstance(blk[k].targets[0] if isinstance(blk[k], ast.Assign) and len(blk[k].targets) == 1
                                         else getattr(blk[k], 'target', None), ast.Name)
                          and (blk[k].targets[0] if isinstance(blk[k], ast.Assign) else blk[k].target).id == y), None)
                if i is None:
                    j += 1
                    continue
                # x is not read between the two statements (it is bound nowhere else, so a read there would
                # be a read before assignment anyway) - and nothing in between is compound
                if any(isinstance(z, ast.Name) and z.id == x for st in blk[i:j] for z in ast.walk(st)):
                    j += 1
                    continue
                tgt = blk[i].targets[0] if isinstance(blk[i], ast.Assign) else blk[i].target
                tgt.id = x
                del blk[j]
                stores[y] = 0
                loads[y] = 0
                changed = True
            # no increment on deletion
        return changed

    def _loops_over_genexp(self, fn: ast.AST) -> bool:
        """`for v in (E for x in XS if C): BODY` - also through a local bound once to the generator
        expression and read only by the loop - is `for x in XS: if C: v = E; BODY`"""
        changed = False
        for blk in list(self._blocks(fn)):
            for i, st in enumerate(blk):
                if not (isinstance(st, ast.For) and not st.orelse):
                    continue
                gen, drop = None, None
                if isinstance(st.iter, ast.GeneratorExp):
                    gen = st.iter
                elif isinstance(st.iter, ast.Name) and i > 0:
                    nm = st.iter.id
                    uses = [x for x in ast.walk(fn) if isinstance(x, ast.Name) and x.id == nm]
                    j = i - 1
                    # plain assignments without calls may sit between the definition and the loop
                    while j >= 0 and not (isinstance(blk[j], ast.Assign) and len(blk[j].targets) == 1
                                          and isinstance(blk[j].targets[0], ast.Name) and blk[j].targets[0].id == nm):
                        mid = blk[j]
                        if not (isinstance(mid, (ast.Assign, ast.AnnAssign)) and getattr(mid, 'value', None) is not None
                                and not any(isinstance(x, (ast.Call, ast.Await, ast.Yield, ast.NamedExpr))
                                            for x in ast.walk(mid))):
                            j = -1
                            break
                        j -= 1
                    prev = blk[j] if j >= 0 else None
                    if prev is not None and isinstance(prev.value, ast.GeneratorExp):
                        gen_names = {x.id for x in ast.walk(prev.value) if isinstance(x, ast.Name)}
                        rebound = {x.id for m_ in blk[j + 1:i] for x in ast.walk(m_)
                                   if isinstance(x, ast.Name) and isinstance(x.ctx, ast.Store)}
                        # every other occurrence of the name is another such definition / loop pair
                        loads = [x for x in uses if isinstance(x.ctx, ast.Load)]
                        stores = [x for x in uses if isinstance(x.ctx, ast.Store)]
                        if len(loads) == len(stores) and not (gen_names & rebound):
                            gen, drop = prev.value, j
                if gen is None or len(gen.generators) != 1 or gen.generators[0].is_async:
                    continue
                g = gen.generators[0]
                inner_names = {x.id for x in ast.walk(g.target) if isinstance(x, ast.Name)}
                body_names = {x.id for b in st.body for x in ast.walk(b) if isinstance(x, ast.Name)} | {
                    x.id for x in ast.walk(st.target) if isinstance(x, ast.Name)}
                if inner_names & body_names:
                    continue
                if any(isinstance(x, ast.Name) and x.id in inner_names and isinstance(x.ctx, ast.Load)
                       for s2 in blk[i + 1:] for x in ast.walk(s2)):
                    continue            # the generator's own variable would leak into later code
                body = [ast.copy_location(ast.Assign(targets=[clone(st.target)], value=gen.elt), st)] + list(st.body)
                for cond in reversed(g.ifs):
                    body = [ast.copy_location(ast.If(test=cond, body=body, orelse=[]), st)]
                new = ast.copy_location(ast.For(target=g.target, iter=g.iter, body=body, orelse=[]), st)
                ast.fix_missing_locations(new)
                if drop is not None:
                    blk[drop:i + 1] = blk[drop + 1:i] + [new]
                else:
                    blk[i] = new
                changed = True
                break
        return changed

    def _thread_boolean_temp(self, fn: ast.AST) -> bool:
        """an if-chain whose every leaf ends by assigning the same local `t`, followed directly by `if t:`
        (or `if not t:`), where `t` is read nowhere else: the second test moves into the leaves, each with
        the expression that leaf assigned (jump threading).  This is what an inlined predicate helper with
        several returns leaves behind (`if a: t = p elif b: t = q else: t = False` / `if t: ...`)."""
        changed = False
        for blk in list(self._blocks(fn)):
            for i in range(len(blk) - 1):
                a, b = blk[i], blk[i + 1]
                if not (isinstance(a, ast.If) and isinstance(b, ast.If)):
                    continue
                test, neg = b.test, False
                if isinstance(test, ast.UnaryOp) and isinstance(test.op, ast.Not):
                    test, neg = test.operand, True
                if not isinstance(test, ast.Name):
                    continue
                t = test.id
                loads = [x for x in ast.walk(fn) if isinstance(x, ast.Name) and x.id == t and isinstance(x.ctx, ast.Load)]
                if len(loads) != 1:
                    continue
                leaves: list[list[ast.stmt]] = []

                def collect(node: ast.If) -> bool:
                    for part in (node.body, node.orelse):
                        if not part:
                            return False            # a path that does not assign t
                        if len(part) == 1 and isinstance(part[0], ast.If) and part is node.orelse:
                            if not collect(part[0]):
                                return False
                            continue
                        last = part[-1]
                        if not (isinstance(last, ast.Assign) and len(last.targets) == 1 and isinstance(last.targets[0], ast.Name)
                                and last.targets[0].id == t):
                            return False
                        if any(isinstance(x, ast.Name) and x.id == t for s_ in part[:-1] for x in ast.walk(s_)):
                            return False
                        leaves.append(part)
                    return True
                if not collect(a) or not leaves:
                    continue
                stores = [x for x in ast.walk(fn) if isinstance(x, ast.Name) and x.id == t and isinstance(x.ctx, ast.Store)]
                if len(stores) != len(leaves):
                    continue
                if sum(1 for s_ in b.body + b.orelse for _ in ast.walk(s_) if isinstance(_, ast.stmt)) * len(leaves) > 120:
                    continue
                for part in leaves:
                    e = part[-1].value
                    cond = ast.UnaryOp(op=ast.Not(), operand=e) if neg else e
                    part[-1] = ast.copy_location(ast.If(test=cond, body=clone(b.body), orelse=clone(b.orelse)), part[-1])
                del blk[i + 1]
                changed = True
                break
        return changed

    def _thread_constant_test(self, fn: ast.AST) -> bool:
        """`if c: m = 1 else: m = m + 1` directly followed by `if m == 1: A else: B`: in the arm that ends by giving
        `m` a constant the second test is decided (A), the other arm gets the whole second `if` (jump threading on a
        constant).  This is what a helper such as `next_index()` - wrap to 1 or step - leaves in front of the code
        that reacts to the wrap."""
        changed = False
        for blk in list(self._blocks(fn)):
            for i in range(len(blk) - 1):
                a, b = blk[i], blk[i + 1]
                if not (isinstance(a, ast.If) and isinstance(b, ast.If) and a.orelse):
                    continue
                t_ = b.test
                if not (isinstance(t_, ast.Compare) and len(t_.ops) == 1 and isinstance(t_.ops[0], (ast.Eq, ast.NotEq))
                        and isinstance(t_.left, ast.Name) and isinstance(t_.comparators[0], ast.Constant)
                        and isinstance(t_.comparators[0].value, (int, str)) and not isinstance(t_.comparators[0].value, bool)):
                    continue
                m, d = t_.left.id, t_.comparators[0].value
                arms = [a.body, a.orelse]
                if any(not arm or not (isinstance(arm[-1], ast.Assign) and len(arm[-1].targets) == 1
                                       and isinstance(arm[-1].targets[0], ast.Name) and arm[-1].targets[0].id == m)
                       for arm in arms):
                    continue
                consts = [isinstance(arm[-1].value, ast.Constant) and type(arm[-1].value.value) is type(d) for arm in arms]
                if not any(consts) or all(consts) and False:
                    continue
                if sum(1 for s_ in b.body + b.orelse for _ in ast.walk(s_) if isinstance(_, ast.stmt)) > 40:
                    continue
                for arm, is_c in zip(arms, consts):
                    if is_c:
                        truth = (arm[-1].value.value == d) == isinstance(t_.ops[0], ast.Eq)
                        arm.extend(clone(b.body if truth else b.orelse))
                    else:
                        arm.append(ast.copy_location(ast.If(test=clone(b.test), body=clone(b.body), orelse=clone(b.orelse)), b))
                del blk[i + 1]
                changed = True
                break
        return changed

    def _struct_constants_to_calls(self, fn: ast.AST, mod, cls) -> bool:
        """`SIZE_FIELD = struct.Struct('>I')` at module or class level: `SIZE_FIELD.pack(x)` is
        `struct.pack('>I', x)`, likewise unpack / unpack_from / calcsize - the spelling the rules read"""
        consts: dict[str, ast.AST] = {}
        for scope in (getattr(mod, 'body', []), getattr(cls, 'body', []) if cls is not None else []):
            for st in scope:
                tg = st.targets[0] if isinstance(st, ast.Assign) and len(st.targets) == 1 else (
                    st.target if isinstance(st, ast.AnnAssign) and st.value is not None else None)
                if isinstance(tg, ast.Name) and isinstance(st.value, ast.Call) and ast.unparse(st.value.func) in ('struct.Struct', 'Struct') \
                        and len(st.value.args) == 1 and isinstance(st.value.args[0], ast.Constant):
                    consts[tg.id] = st.value.args[0]
        if not consts:
            return False
        changed = False
        for c in ast.walk(fn):
            if isinstance(c, ast.Call) and isinstance(c.func, ast.Attribute) and c.func.attr in ('pack', 'unpack', 'unpack_from', 'pack_into'):
                recv = c.func.value
                name = recv.id if isinstance(recv, ast.Name) else (
                    recv.attr if isinstance(recv, ast.Attribute) and isinstance(recv.value, ast.Name)
                    and recv.value.id in ('self', 'cls', 'clz') + ((cls.name,) if cls is not None else ()) else None)
                if name in consts:
                    c.func = ast.copy_location(ast.Attribute(value=ast.Name(id='struct', ctx=ast.Load()), attr=c.func.attr, ctx=ast.Load()), c.func)
                    c.args = [clone(consts[name])] + c.args
                    ast.fix_missing_locations(c)
                    changed = True
        return changed

    def _struct_choice_split(self, fn: ast.AST) -> bool:
        """`entry = struct.Struct('>I' if c else '>Q')` followed by a few statements that use `entry`
        (`entry.unpack(src.read(entry.size))`, `entry.pack(x)`): one branch per format with the plain
        struct.unpack / struct.pack calls and the size written out"""
        import struct as _struct
        changed = False
        for blk in list(self._blocks(fn)):
            for i, st in enumerate(blk):
                def struct_of(s_):
                    if isinstance(s_, ast.Assign) and len(s_.targets) == 1 and isinstance(s_.targets[0], ast.Name) \
                            and isinstance(s_.value, ast.Call) and ast.unparse(s_.value.func) in ('struct.Struct', 'Struct') \
                            and len(s_.value.args) == 1:
                        return s_.targets[0].id, s_.value.args[0]
                    return None
                ife = None
                got = struct_of(st)
                if got is not None and isinstance(got[1], ast.IfExp) and isinstance(got[1].body, ast.Constant) \
                        and isinstance(got[1].orelse, ast.Constant):
                    v, ife = got
                elif isinstance(st, ast.If) and len(st.body) == 1 and len(st.orelse) == 1:
                    # the same after `x = f(a if c else b)` was written as if/else
                    a_, b_ = struct_of(st.body[0]), struct_of(st.orelse[0])
                    if a_ is not None and b_ is not None and a_[0] == b_[0] and isinstance(a_[1], ast.Constant) \
                            and isinstance(b_[1], ast.Constant):
                        v = a_[0]
                        ife = ast.IfExp(test=st.test, body=a_[1], orelse=b_[1])
                if ife is None:
                    continue
                users = [j for j in range(i + 1, len(blk)) if any(isinstance(x, ast.Name) and x.id == v for x in ast.walk(blk[j]))]
                if not users or users[-1] - i > 4:
                    continue
                tail = blk[i + 1:users[-1] + 1]
                outside = [x for x in ast.walk(fn) if isinstance(x, ast.Name) and x.id == v
                           and not any(x is y for t_ in tail for y in ast.walk(t_))
                           and not any(x is y for y in ast.walk(st))]
                if outside:
                    continue

                def with_format(stmts, fmt: ast.Constant):
                    out = clone(stmts)

                    class T(ast.NodeTransformer):
                        def visit_Call(self, node):
                            self.generic_visit(node)
                            if isinstance(node.func, ast.Attribute) and isinstance(node.func.value, ast.Name) \
                                    and node.func.value.id == v and node.func.attr in ('pack', 'unpack', 'unpack_from', 'pack_into'):
                                node.func = ast.Attribute(value=ast.Name(id='struct', ctx=ast.Load()), attr=node.func.attr, ctx=ast.Load())
                                node.args = [clone(fmt)] + node.args
                            return node

                        def visit_Attribute(self, node):
                            self.generic_visit(node)
                            if isinstance(node.value, ast.Name) and node.value.id == v and node.attr == 'size':
                                try:
                                    return ast.Constant(value=_struct.calcsize(fmt.value))
                                except Exception:
                                    return node
                            return node
                    return [ast.fix_missing_locations(ast.copy_location(T().visit(s_), st)) for s_ in out]
                new_if = ast.If(test=ife.test, body=with_format(tail, ife.body), orelse=with_format(tail, ife.orelse))
                if any(isinstance(x, ast.Name) and x.id == v for b_ in (new_if.body + new_if.orelse) for x in ast.walk(b_)):
                    continue            # the struct object is used in a way that was not written out
                blk[i:users[-1] + 1] = [ast.fix_missing_locations(ast.copy_location(new_if, st))]
                changed = True
                break
        return changed

    def _split_chained_assign(self, fn: ast.AST) -> bool:
        """`self.a = x = E` (one of the targets a local name): `x = E; self.a = x`"""
        changed = False
        for blk in list(self._blocks(fn)):
            i = 0
            while i < len(blk):
                st = blk[i]
                i += 1
                if not (isinstance(st, ast.Assign) and len(st.targets) > 1):
                    continue
                names = [t for t in st.targets if isinstance(t, ast.Name)]
                if len(names) != 1 or isinstance(st.value, (ast.Name, ast.Constant)):
                    continue
                holder = names[0]
                if any(isinstance(x, ast.Name) and x.id == holder.id for t in st.targets if t is not holder for x in ast.walk(t)):
                    continue
                others = [t for t in st.targets if t is not holder]
                first = ast.copy_location(ast.Assign(targets=[holder], value=st.value), st)
                rest = [ast.copy_location(ast.Assign(targets=[t], value=ast.Name(id=holder.id, ctx=ast.Load())), st) for t in others]
                blk[i - 1:i] = [first] + rest
                for x in [first] + rest:
                    ast.fix_missing_locations(x)
                i += len(rest)
                changed = True
        return changed

    def _thread_optional_result(self, fn: ast.AST) -> bool:
        """an if-chain whose every leaf ends with `t = None` or `t = (a, b, ..)` (what an inlined helper that
        returns an optional tuple leaves behind), followed by `if t is None: <jump>` and `x, y = t`: the jump
        moves into the None leaves, the unpacking into the (single) tuple leaf as `x, y = (a, b)`"""
        changed = False
        for blk in list(self._blocks(fn)):
            for i in range(len(blk) - 2):
                a, b, c = blk[i], blk[i + 1], blk[i + 2]
                if not (isinstance(a, ast.If) and isinstance(b, ast.If) and not b.orelse
                        and isinstance(c, ast.Assign) and len(c.targets) == 1 and isinstance(c.targets[0], ast.Tuple)
                        and isinstance(c.value, ast.Name)):
                    continue
                t = c.value.id
                test = b.test
                if not (isinstance(test, ast.Compare) and len(test.ops) == 1 and isinstance(test.ops[0], ast.Is)
                        and isinstance(test.left, ast.Name) and test.left.id == t
                        and isinstance(test.comparators[0], ast.Constant) and test.comparators[0].value is None):
                    continue
                if not (b.body and isinstance(b.body[-1], (ast.Return, ast.Raise, ast.Continue, ast.Break))):
                    continue
                loads = [x for x in ast.walk(fn) if isinstance(x, ast.Name) and x.id == t and isinstance(x.ctx, ast.Load)]
                if len(loads) != 2:
                    continue
                leaves: list[list[ast.stmt]] = []

                def collect(node: ast.If) -> bool:
                    for part in (node.body, node.orelse):
                        if not part:
                            return False
                        if len(part) == 1 and isinstance(part[0], ast.If) and part is node.orelse:
                            if not collect(part[0]):
                                return False
                            continue
                        last = part[-1]
                        if isinstance(last, ast.If) and last.orelse:
                            if not collect(last):
                                return False
                            continue
                        if not (isinstance(last, ast.Assign) and len(last.targets) == 1 and isinstance(last.targets[0], ast.Name)
                                and last.targets[0].id == t
                                and (isinstance(last.value, ast.Tuple)
                                     or (isinstance(last.value, ast.Constant) and last.value.value is None))):
                            return False
                        leaves.append(part)
                    return True
                if not collect(a) or not leaves:
                    continue
                tuples = [p_ for p_ in leaves if isinstance(p_[-1].value, ast.Tuple)]
                if len(tuples) != 1 or len(tuples[0][-1].value.elts) != len(c.targets[0].elts):
                    continue
                stores = [x for x in ast.walk(fn) if isinstance(x, ast.Name) and x.id == t and isinstance(x.ctx, ast.Store)]
                if len(stores) != len(leaves):
                    continue
                for part in leaves:
                    if isinstance(part[-1].value, ast.Tuple):
                        part[-1] = ast.copy_location(ast.Assign(targets=[clone(c.targets[0])], value=part[-1].value), part[-1])
                    else:
                        part[-1:] = clone(b.body)
                del blk[i + 1:i + 3]
                changed = True
                break
        return changed

    def _thread_result_or_error(self, fn: ast.AST, mod) -> bool:
        """an if-chain (with try/except/else inside) whose every leaf ends with `t = Record(..)` - a NamedTuple or
        dataclass of the same module - or `t = <call of something else>` (an error response), followed by
        `if not isinstance(t, Record): <jump>` and optionally `a, b = t`: the jump moves into the leaves that
        do not build the record, the unpacking into those that do (`a, b = (fields in declaration order)`).
        This is what an inlined "find it or say why not" helper leaves behind."""
        records = {c.name: c for c in getattr(mod, 'body', []) if isinstance(c, ast.ClassDef)
                   and (any(ast.unparse(b).split('.')[-1] == 'NamedTuple' for b in c.bases)
                        or any('dataclass' in ast.unparse(d) for d in c.decorator_list))}
        if not records:
            return False
        changed = False
        for blk in list(self._blocks(fn)):
            for i in range(len(blk) - 1):
                a, b = blk[i], blk[i + 1]
                if not (isinstance(a, ast.If) and isinstance(b, ast.If) and not b.orelse):
                    continue
                test = b.test
                if not (isinstance(test, ast.UnaryOp) and isinstance(test.op, ast.Not) and isinstance(test.operand, ast.Call)
                        and ast.unparse(test.operand.func) == 'isinstance' and len(test.operand.args) == 2
                        and isinstance(test.operand.args[0], ast.Name) and isinstance(test.operand.args[1], ast.Name)
                        and test.operand.args[1].id in records):
                    continue
                if not (b.body and isinstance(b.body[-1], (ast.Return, ast.Raise, ast.Continue, ast.Break))):
                    continue
                t, rec = test.operand.args[0].id, records[test.operand.args[1].id]
                fields = [x.target.id for x in rec.body if isinstance(x, ast.AnnAssign) and isinstance(x.target, ast.Name)]
                unpack = blk[i + 2] if i + 2 < len(blk) and isinstance(blk[i + 2], ast.Assign) and len(blk[i + 2].targets) == 1 \
                    and isinstance(blk[i + 2].targets[0], ast.Tuple) and isinstance(blk[i + 2].value, ast.Name) \
                    and blk[i + 2].value.id == t and len(blk[i + 2].targets[0].elts) == len(fields) else None
                loads = [x for x in ast.walk(fn) if isinstance(x, ast.Name) and x.id == t and isinstance(x.ctx, ast.Load)]
                jump_reads = sum(1 for s_ in b.body for x in ast.walk(s_) if isinstance(x, ast.Name) and x.id == t)
                if len(loads) != 1 + jump_reads + (1 if unpack is not None else 0):
                    continue
                leaves: list[list[ast.stmt]] = []

                def collect(stmts: list[ast.stmt]) -> bool:
                    if not stmts:
                        return False
                    last = stmts[-1]
                    if isinstance(last, ast.If):
                        return bool(last.orelse) and collect(last.body) and collect(last.orelse)
                    if isinstance(last, ast.Try):
                        if last.finalbody:
                            return False
                        tail_ = last.orelse if last.orelse else last.body
                        return collect(tail_) and all(collect(h.body) for h in last.handlers)
                    if isinstance(last, ast.Assign) and len(last.targets) == 1 and isinstance(last.targets[0], ast.Name) \
                            and last.targets[0].id == t and isinstance(last.value, ast.Call):
                        leaves.append(stmts)
                        return True
                    return False
                if not (collect(a.body) and a.orelse and collect(a.orelse)) or not leaves:
                    continue
                stores = [x for x in ast.walk(fn) if isinstance(x, ast.Name) and x.id == t and isinstance(x.ctx, ast.Store)]
                if len(stores) != len(leaves):
                    continue
                ok = True
                plan = []
                for part in leaves:
                    call = part[-1].value
                    fname = ast.unparse(call.func)
                    if fname == rec.name:
                        if any(isinstance(x, ast.Starred) for x in call.args) or any(k.arg is None for k in call.keywords):
                            ok = False
                            break
                        actual = dict(zip(fields, call.args))
                        actual.update({k.arg: k.value for k in call.keywords})
                        if set(actual) != set(fields):
                            ok = False
                            break
                        plan.append((part, [actual[f_] for f_ in fields]))
                    elif '.' in fname and fname.split('.')[0] in ('flask', 'werkzeug') or fname in ('jsonify', 'jsonify_no_content'):
                        plan.append((part, None))           # a library response object: not the record
                    else:
                        ok = False
                        break
                if not ok:
                    continue
                for part, vals in plan:
                    if vals is None:
                        # the jump, with the value it would have returned
                        part.extend(clone(b.body))
                    elif unpack is not None:
                        part[-1] = ast.copy_location(ast.Assign(targets=[clone(unpack.targets[0])],
                                                                value=ast.Tuple(elts=[clone(v_) for v_ in vals], ctx=ast.Load())), part[-1])
                    ast.fix_missing_locations(part[-1])
                del blk[i + 1:(i + 3 if unpack is not None else i + 2)]
                changed = True
                break
        return changed

    def _forward_ctor_fields(self, fn: ast.AST, mod) -> bool:
        """`b = Buffer(bucket, data)` ... `b.pos`: a field that the constructor of a class of the same module
        sets to one of its parameters as it is (`self.pos = pos`, at the top level of __init__) reads as the
        argument that was passed, while neither the local, the field nor the argument is written again"""
        if mod is None:
            return False
        ctors: dict[str, dict[str, int]] = {}
        for c in getattr(mod, 'body', []):
            if not isinstance(c, ast.ClassDef):
                continue
            init = next((m for m in c.body if isinstance(m, ast.FunctionDef) and m.name == '__init__'), None)
            if init is None or init.args.vararg or init.args.kwarg:
                continue
            params = [a.arg for a in init.args.args][1:]
            fields: dict[str, int] = {}
            for st in init.body:
                if isinstance(st, ast.Assign) and len(st.targets) == 1 and isinstance(st.targets[0], ast.Attribute) \
                        and isinstance(st.targets[0].value, ast.Name) and st.targets[0].value.id == 'self' \
                        and isinstance(st.value, ast.Name) and st.value.id in params:
                    fields[st.targets[0].attr] = params.index(st.value.id)
            # a field written a second time anywhere in the class is not a plain copy
            for n in ast.walk(c):
                if isinstance(n, ast.Attribute) and isinstance(n.ctx, (ast.Store, ast.Del)) and n.attr in fields \
                        and not any(n is st.targets[0] for st in init.body if isinstance(st, ast.Assign)):
                    fields.pop(n.attr, None)
            if fields:
                ctors[c.name] = fields
        if not ctors:
            return False
        stores: dict[str, int] = {}
        for n in ast.walk(fn):
            if isinstance(n, ast.Name) and isinstance(n.ctx, (ast.Store, ast.Del)):
                stores[n.id] = stores.get(n.id, 0) + 1
        params_fn = {a.arg for a in ast.walk(fn) if isinstance(a, ast.arg)}
        changed = False
        for st in list(ast.walk(fn)):
            if not (isinstance(st, ast.Assign) and len(st.targets) == 1 and isinstance(st.targets[0], ast.Name)
                    and isinstance(st.value, ast.Call) and isinstance(st.value.func, ast.Name)
                    and st.value.func.id in ctors and not st.value.keywords
                    and not any(isinstance(a, ast.Starred) for a in st.value.args)):
                continue
            v = st.targets[0].id
            if stores.get(v, 0) != 1 or v in params_fn:
                continue
            for f, idx in ctors[st.value.func.id].items():
                if idx >= len(st.value.args):
                    continue
                arg = st.value.args[idx]
                if not isinstance(arg, ast.Name) or not (arg.id in params_fn and stores.get(arg.id, 0) == 0
                                                         or stores.get(arg.id, 0) == 1 and arg.id not in params_fn):
                    continue
                if any(isinstance(x, ast.Attribute) and isinstance(x.ctx, (ast.Store, ast.Del)) and x.attr == f
                       and isinstance(x.value, ast.Name) and x.value.id == v for x in ast.walk(fn)):
                    continue
                for parent in ast.walk(fn):
                    for field_, val in ast.iter_fields(parent):
                        items = val if isinstance(val, list) else [val]
                        for k, x in enumerate(items):
                            if isinstance(x, ast.Attribute) and isinstance(x.ctx, ast.Load) and x.attr == f \
                                    and isinstance(x.value, ast.Name) and x.value.id == v \
                                    and getattr(x, 'lineno', 0) >= getattr(st, 'lineno', 0):
                                new = ast.copy_location(ast.Name(id=arg.id, ctx=ast.Load()), x)
                                if isinstance(val, list):
                                    val[k] = new
                                else:
                                    setattr(parent, field_, new)
                                changed = True
        return changed

    def _sink_splat_user(self, fn: ast.AST) -> bool:
        """`if c: kw = {'day': 1} else: kw = {'month': 1, 'day': 1}` followed by a statement that calls with
        `**kw`: the statement moves into each branch with the keywords of that branch written out"""
        changed = False
        for blk in list(self._blocks(fn)):
            for i in range(len(blk) - 1):
                a, nxt = blk[i], blk[i + 1]
                if not isinstance(a, ast.If) or isinstance(nxt, (ast.If, ast.For, ast.While, ast.Try, ast.With,
                                                                 ast.FunctionDef, ast.ClassDef)):
                    continue
                splats = [k for c in ast.walk(nxt) if isinstance(c, ast.Call) for k in c.keywords
                          if k.arg is None and isinstance(k.value, ast.Name)]
                if len(splats) != 1:
                    continue
                v = splats[0].value.id
                leaves: list[list[ast.stmt]] = []

                def collect(node: ast.If) -> bool:
                    for part in (node.body, node.orelse):
                        if not part:
                            return False
                        if len(part) == 1 and isinstance(part[0], ast.If) and part is node.orelse:
                            if not collect(part[0]):
                                return False
                            continue
                        last = part[-1]
                        if not (isinstance(last, (ast.Assign, ast.AnnAssign)) and getattr(last, 'value', None) is not None
                                and isinstance(last.targets[0] if isinstance(last, ast.Assign) else last.target, ast.Name)
                                and (last.targets[0] if isinstance(last, ast.Assign) else last.target).id == v
                                and isinstance(last.value, ast.Dict)
                                and all(isinstance(k, ast.Constant) and isinstance(k.value, str) for k in last.value.keys)):
                            return False
                        leaves.append(part)
                    return True
                if not collect(a) or not leaves:
                    continue
                loads = [x for x in ast.walk(fn) if isinstance(x, ast.Name) and x.id == v and isinstance(x.ctx, ast.Load)]
                if len(loads) != 1:
                    continue
                for part in leaves:
                    d = part[-1].value
                    st2 = clone(nxt)
                    for c in ast.walk(st2):
                        if isinstance(c, ast.Call):
                            kws = []
                            for k in c.keywords:
                                if k.arg is None and isinstance(k.value, ast.Name) and k.value.id == v:
                                    kws.extend(ast.keyword(arg=kk.value, value=clone(vv)) for kk, vv in zip(d.keys, d.values))
                                else:
                                    kws.append(k)
                            c.keywords = kws
                    part.append(st2)
                del blk[i + 1]
                changed = True
                break
        return changed

    def _inline_module_value_constants(self, fn: ast.AST, mod, cls=None) -> bool:
        """`ONE_DAY` / `UNIX_EPOCH`: a module-level name spelt as a constant, bound once to a date / time value
        object built from constants (`datetime.timedelta(days=1)`, `datetime.datetime(1970, 1, 1, tzinfo=UTC())`)
        is written out where the function reads it; so is a class-level one read as self.NAME / cls.NAME /
        Class.NAME"""
        if mod is None:
            return False
        changed_cls = False
        if cls is not None:
            cconsts: dict[str, ast.AST] = {}
            ccounts: dict[str, int] = {}
            for st in cls.body:
                tg = st.targets[0] if isinstance(st, ast.Assign) and len(st.targets) == 1 else (
                    st.target if isinstance(st, ast.AnnAssign) and st.value is not None else None)
                if isinstance(tg, ast.Name) and tg.id.isupper():
                    ccounts[tg.id] = ccounts.get(tg.id, 0) + 1
                    v = st.value
                    if isinstance(v, ast.Call) and ast.unparse(v.func) in (
                            'datetime.timedelta', 'timedelta', 'datetime.datetime', 'datetime.time', 'datetime.date') \
                            and all(isinstance(x, ast.Constant) for x in v.args) \
                            and all(k.arg is not None and isinstance(k.value, ast.Constant) for k in v.keywords):
                        cconsts[tg.id] = v
            cconsts = {k: v for k, v in cconsts.items() if ccounts.get(k) == 1}
            stored = {x.attr for x in ast.walk(fn) if isinstance(x, ast.Attribute) and isinstance(x.ctx, (ast.Store, ast.Del))}
            if cconsts:
                owners = ('self', 'cls', 'clz', cls.name)

                class TA(ast.NodeTransformer):
                    def visit_Attribute(self, node):
                        nonlocal changed_cls
                        self.generic_visit(node)
                        if isinstance(node.ctx, ast.Load) and isinstance(node.value, ast.Name) and node.value.id in owners \
                                and node.attr in cconsts and node.attr not in stored:
                            changed_cls = True
                            return ast.copy_location(clone(cconsts[node.attr]), node)
                        return node
                fn.body = [TA().visit(st) for st in fn.body]
        consts: dict[str, ast.AST] = {}
        counts: dict[str, int] = {}
        for st in getattr(mod, 'body', []):
            tg = st.targets[0] if isinstance(st, ast.Assign) and len(st.targets) == 1 else (
                st.target if isinstance(st, ast.AnnAssign) and st.value is not None else None)
            if isinstance(tg, ast.Name) and tg.id.isupper():
                counts[tg.id] = counts.get(tg.id, 0) + 1
                v = st.value
                if isinstance(v, ast.Call) and ast.unparse(v.func) in (
                        'datetime.timedelta', 'timedelta', 'datetime.datetime', 'datetime.time', 'datetime.date'):
                    def plain(x) -> bool:
                        return isinstance(x, ast.Constant) or (isinstance(x, ast.Call) and not x.args and not x.keywords
                                                               and isinstance(x.func, ast.Name))
                    if all(plain(x) for x in v.args) and all(k.arg is not None and plain(k.value) for k in v.keywords):
                        consts[tg.id] = v
        consts = {k: v for k, v in consts.items() if counts.get(k) == 1}
        if not consts:
            return changed_cls
        local = {x.id for x in ast.walk(fn) if isinstance(x, ast.Name) and isinstance(x.ctx, (ast.Store, ast.Del))}
        local |= {a.arg for a in ast.walk(fn) if isinstance(a, ast.arg)}
        changed = False

        class T(ast.NodeTransformer):
            def visit_Name(self, node):
                nonlocal changed
                if isinstance(node.ctx, ast.Load) and node.id in consts and node.id not in local:
                    changed = True
                    return ast.copy_location(clone(consts[node.id]), node)
                return node
        for field in ('body',):
            setattr(fn, field, [T().visit(st) for st in getattr(fn, field)])
        return changed or changed_cls

    def _fold_constant_ifs(self, fn: ast.AST) -> bool:
        """`if False: A else: B` (a defaulted flag parameter after inlining) is B"""
        changed = False
        for blk in list(self._blocks(fn)):
            i = 0
            while i < len(blk):
                st = blk[i]
                if isinstance(st, ast.If) and not isinstance(st.test, ast.Constant):
                    simp = _simplify_test(st.test)
                    if simp is not st.test:
                        st.test = simp
                        changed = True
                if isinstance(st, ast.If) and isinstance(st.test, ast.Constant) \
                        and (st.test.value is None or isinstance(st.test.value, (bool, int, str))):
                    live = st.body if st.test.value else st.orelse
                    blk[i:i + 1] = live or [ast.copy_location(ast.Pass(), st)]
                    changed = True
                    continue
                i += 1
        return changed

    def _ifexp_to_if(self, fn: ast.AST) -> bool:
        """`x = a if c else b`, `return (s, e, 206 if ok else 416, h)`: an if/else of two copies of the
        statement, when the conditional expression is evaluated first and unconditionally"""
        changed = False

        def has_call(e) -> bool:
            return any(isinstance(x, (ast.Call, ast.Await, ast.NamedExpr)) for x in ast.walk(e))

        def find(e, setter):
            if isinstance(e, ast.IfExp):
                return e, setter
            if isinstance(e, (ast.Tuple, ast.List)):
                for j, x in enumerate(e.elts):
                    got = find(x, lambda v, e=e, j=j: e.elts.__setitem__(j, v))
                    if got is not None:
                        return got
                    if has_call(x):
                        return None
            if isinstance(e, ast.UnaryOp):
                return find(e.operand, lambda v, e=e: setattr(e, 'operand', v))
            if isinstance(e, ast.BinOp):
                got = find(e.left, lambda v, e=e: setattr(e, 'left', v))
                if got is not None or has_call(e.left):
                    return got
                return find(e.right, lambda v, e=e: setattr(e, 'right', v))
            if isinstance(e, ast.Call):
                parts = []
                if isinstance(e.func, ast.Attribute):
                    if has_call(e.func.value):
                        return None
                for j, a in enumerate(e.args):
                    parts.append((a, lambda v, e=e, j=j: e.args.__setitem__(j, v)))
                for k in e.keywords:
                    parts.append((k.value, lambda v, k=k: setattr(k, 'value', v)))
                for sub, sset in parts:
                    got = find(sub, sset)
                    if got is not None:
                        return got
                    if has_call(sub):
                        return None
            if isinstance(e, ast.Dict):
                for j, x in enumerate(e.values):
                    if e.keys[j] is not None and has_call(e.keys[j]):
                        return None
                    got = find(x, lambda v, e=e, j=j: e.values.__setitem__(j, v))
                    if got is not None:
                        return got
                    if has_call(x):
                        return None
            if isinstance(e, ast.JoinedStr):
                for p in e.values:
                    if isinstance(p, ast.FormattedValue):
                        got = find(p.value, lambda v, p=p: setattr(p, 'value', v))
                        if got is not None:
                            return got
                        if has_call(p.value):
                            return None
            return None

        for blk in list(self._blocks(fn)):
            for i, st in enumerate(blk):
                # for x in (A if c else B): BODY  ->  if c: for x in A: BODY  else: for x in B: BODY
                if isinstance(st, ast.For) and isinstance(st.iter, ast.IfExp) and not has_call(st.iter.test):
                    a_, b_ = clone(st), clone(st)
                    a_.iter, b_.iter = st.iter.body, st.iter.orelse
                    blk[i] = ast.copy_location(ast.If(test=st.iter.test, body=[a_], orelse=[b_]), st)
                    changed = True
                    continue
                val = getattr(st, 'value', None)
                if not isinstance(st, (ast.Assign, ast.AnnAssign, ast.Return, ast.Expr)) or val is None:
                    continue
                a = clone(st)
                got = find(a.value, lambda v, a=a: setattr(a, 'value', v))
                if got is None:
                    continue
                ife, setter = got
                b = clone(st)
                gotb = find(b.value, lambda v, b=b: setattr(b, 'value', v))
                setter(ife.body)
                gotb[1](gotb[0].orelse)
                node = ast.copy_location(ast.If(test=ife.test, body=[a], orelse=[b]), st)
                blk[i] = node
                changed = True
        return changed

    def _module_dict_const(self, name: str, mod):
        """NAME = {'k': const, ..} or NAME = dict(k=const, ..), bound once at module level and never changed:
        a fresh Dict display, else None"""
        if mod is None:
            return None
        defs = [st.value for st in getattr(mod, 'body', [])
                if (isinstance(st, ast.Assign) and len(st.targets) == 1 and isinstance(st.targets[0], ast.Name)
                    and st.targets[0].id == name)
                or (isinstance(st, ast.AnnAssign) and isinstance(st.target, ast.Name) and st.target.id == name
                    and st.value is not None)]
        if len(defs) != 1:
            return None
        v = defs[0]
        if isinstance(v, ast.Call) and isinstance(v.func, ast.Name) and v.func.id == 'dict' and not v.args \
                and v.keywords and all(k.arg is not None and isinstance(k.value, ast.Constant) for k in v.keywords):
            v = ast.Dict(keys=[ast.Constant(value=k.arg) for k in v.keywords], values=[k.value for k in v.keywords])
        if not (isinstance(v, ast.Dict) and v.keys and all(isinstance(k, ast.Constant) and isinstance(k.value, str)
                                                           for k in v.keys)
                and all(isinstance(x, ast.Constant) for x in v.values)):
            return None
        for n in ast.walk(mod):
            if isinstance(n, ast.Subscript) and isinstance(n.value, ast.Name) and n.value.id == name \
                    and isinstance(n.ctx, (ast.Store, ast.Del)):
                return None
            if isinstance(n, ast.Call) and isinstance(n.func, ast.Attribute) and isinstance(n.func.value, ast.Name) \
                    and n.func.value.id == name and n.func.attr in ('update', 'pop', 'popitem', 'clear', 'setdefault'):
                return None
        return clone(v)

    def _format_to_fstring(self, fn: ast.AST) -> bool:
        """'{0}-{1}'.format(a, b), '{}-{}'.format(a, b), '%s-%s' % (a, b) with a constant template and
        plain fields: the equivalent f-string (one representation for text-building rules)"""
        import re as _re
        changed = False
        outer = self
        mod_ = fn
        while getattr(mod_, '_parent', None) is not None:
            mod_ = mod_._parent
        if not isinstance(mod_, ast.Module):
            mod_ = getattr(self, '_cur_mod', None)

        class T(ast.NodeTransformer):
            def visit_JoinedStr(inner, node: ast.JoinedStr):
                # f'bytes {f"{a}-{b}"}' -> f'bytes {a}-{b}' (a text helper inlined into an f-string)
                nonlocal changed
                inner.generic_visit(node)
                vals = []
                for v in node.values:
                    if isinstance(v, ast.FormattedValue) and v.conversion == -1 and v.format_spec is None \
                            and isinstance(v.value, ast.JoinedStr):
                        vals.extend(v.value.values)
                        changed = True
                    elif isinstance(v, ast.FormattedValue) and v.conversion == -1 and v.format_spec is None \
                            and isinstance(v.value, ast.Constant) and isinstance(v.value.value, str):
                        vals.append(ast.Constant(value=v.value.value))
                        changed = True
                    else:
                        vals.append(v)
                # merge neighbouring constants
                merged = []
                for v in vals:
                    if merged and isinstance(v, ast.Constant) and isinstance(merged[-1], ast.Constant):
                        merged[-1] = ast.Constant(value=merged[-1].value + v.value)
                    else:
                        merged.append(v)
                node.values = merged
                if len(merged) == 1 and isinstance(merged[0], ast.Constant) and isinstance(merged[0].value, str):
                    changed = True
                    return ast.copy_location(ast.Constant(value=merged[0].value), node)     # f'text' is 'text'
                return node

            def visit_Call(inner, node: ast.Call):
                nonlocal changed
                inner.generic_visit(node)
                # f(a, **MIDNIGHT) with MIDNIGHT = dict(hour=0, ..) / {'hour': 0, ..} bound once at module level
                for k in node.keywords:
                    if k.arg is None and isinstance(k.value, ast.Name) and k.value.id.isupper():
                        lit = outer._module_dict_const(k.value.id, mod_)
                        if lit is not None:
                            k.value = lit
                # f(a, **{'day': 1}) is f(a, day=1)
                if any(k.arg is None and isinstance(k.value, ast.Dict) and all(
                        isinstance(kk, ast.Constant) and isinstance(kk.value, str) and kk.value.isidentifier()
                        for kk in k.value.keys) for k in node.keywords):
                    new_kw = []
                    for k in node.keywords:
                        if k.arg is None and isinstance(k.value, ast.Dict) and all(
                                isinstance(kk, ast.Constant) and isinstance(kk.value, str) and kk.value.isidentifier()
                                for kk in k.value.keys):
                            new_kw.extend(ast.keyword(arg=kk.value, value=vv) for kk, vv in zip(k.value.keys, k.value.values))
                        else:
                            new_kw.append(k)
                    if len({k.arg for k in new_kw if k.arg}) == len([k for k in new_kw if k.arg]):
                        node.keywords = new_kw
                        changed = True
                # getattr(x, 'name') with a constant, identifier-like name is x.name
                if isinstance(node.func, ast.Name) and node.func.id == 'getattr' and len(node.args) == 2 \
                        and not node.keywords and isinstance(node.args[1], ast.Constant) \
                        and isinstance(node.args[1].value, str) and node.args[1].value.isidentifier():
                    changed = True
                    return ast.copy_location(ast.Attribute(value=node.args[0], attr=node.args[1].value,
                                                           ctx=ast.Load()), node)
                if isinstance(node.func, ast.Attribute) and node.func.attr == 'format' \
                        and isinstance(node.func.value, ast.Constant) and isinstance(node.func.value.value, str) \
                        and node.keywords and not node.args and all(k.arg is not None for k in node.keywords) \
                        and not any(isinstance(x, (ast.Call, ast.Await, ast.NamedExpr)) for k in node.keywords
                                    for x in ast.walk(k.value)):
                    # '{start}-{end}'.format(start=a, end=b): named fields, plain values
                    tmpl = node.func.value.value
                    parts = _re.split(r'(\{[A-Za-z_]\w*\})', tmpl)
                    if '{' in ''.join(p_ for p_ in parts if not _re.fullmatch(r'\{[A-Za-z_]\w*\}', p_)) \
                            or '}' in ''.join(p_ for p_ in parts if not _re.fullmatch(r'\{[A-Za-z_]\w*\}', p_)):
                        return node
                    kw = {k.arg: k.value for k in node.keywords}
                    values = []
                    for p_ in parts:
                        m = _re.fullmatch(r'\{([A-Za-z_]\w*)\}', p_)
                        if m:
                            if m.group(1) not in kw:
                                return node
                            values.append(ast.FormattedValue(value=clone(kw[m.group(1)]), conversion=-1, format_spec=None))
                        elif p_:
                            values.append(ast.Constant(value=p_))
                    changed = True
                    return inner.visit_JoinedStr(ast.copy_location(ast.JoinedStr(values=values), node))
                if isinstance(node.func, ast.Attribute) and node.func.attr == 'format' \
                        and isinstance(node.func.value, ast.Constant) and isinstance(node.func.value.value, str) \
                        and not node.keywords and not any(isinstance(a, ast.Starred) for a in node.args):
                    tmpl = node.func.value.value
                    parts = _re.split(r'(\{\d*\})', tmpl)
                    if '{' in ''.join(p for p in parts if not _re.fullmatch(r'\{\d*\}', p)):
                        return node
                    values = []
                    auto = 0
                    for p_ in parts:
                        m = _re.fullmatch(r'\{(\d*)\}', p_)
                        if m:
                            idx = int(m.group(1)) if m.group(1) else auto
                            auto += 1
                            if idx >= len(node.args):
                                return node
                            values.append(ast.FormattedValue(value=clone(node.args[idx]), conversion=-1,
                                                             format_spec=None))
                        elif p_:
                            values.append(ast.Constant(value=p_))
                    changed = True
                    return ast.copy_location(ast.JoinedStr(values=values), node)
                return node

            def visit_BinOp(inner, node: ast.BinOp):
                nonlocal changed
                inner.generic_visit(node)
                if isinstance(node.op, ast.Mod) and isinstance(node.left, ast.Constant) \
                        and isinstance(node.left.value, str):
                    tmpl = node.left.value
                    args = node.right.elts if isinstance(node.right, ast.Tuple) else [node.right]
                    parts = _re.split(r'(%[sd])', tmpl)
                    if '%' in ''.join(p for p in parts if p not in ('%s', '%d')):
                        return node
                    if sum(1 for p in parts if p in ('%s', '%d')) != len(args):
                        return node
                    values = []
                    it = iter(args)
                    for p_ in parts:
                        if p_ in ('%s', '%d'):
                            values.append(ast.FormattedValue(value=clone(next(it)), conversion=-1,
                                                             format_spec=None))
                        elif p_:
                            values.append(ast.Constant(value=p_))
                    changed = True
                    return ast.copy_location(ast.JoinedStr(values=values), node)
                return node
        for blk in list(self._blocks(fn)):
            for j, st in enumerate(blk):
                if isinstance(st, (ast.Assign, ast.AnnAssign, ast.Return, ast.Expr, ast.AugAssign)):
                    T().visit(st)
                elif isinstance(st, (ast.If, ast.While)):
                    st.test = T().visit(st.test)
                elif isinstance(st, ast.For):
                    st.iter = T().visit(st.iter)
        return changed

    # ---- inlining ---------------------------------------------------------------------------
    def _resolve(self, call: ast.Call, fn, rel, mod, cls):
        """-> (callee FunctionDef, bound receiver expression or None, owner rel) or None"""
        f = call.func
        nm = f.id if isinstance(f, ast.Name) else (f.attr if isinstance(f, ast.Attribute) else None)
        if nm is None:
            return None
        nested = getattr(fn, '_nested_defs', None)
        if nested is None:
            nested = {n.name: n for n in ast.walk(fn)
                      if isinstance(n, (ast.FunctionDef, ast.AsyncFunctionDef)) and n is not fn}
            fn._nested_defs = nested
        if nm not in nested and nm not in self.new_names() and not getattr(fn, '_local_classes', None):
            return None
        if isinstance(f, ast.Name):
            if f.id in nested:
                return nested[f.id], None, rel, True
            for n in getattr(mod, 'body', []):
                if isinstance(n, (ast.FunctionDef, ast.AsyncFunctionDef)) and n.name == f.id:
                    return (n, None, rel, False) if self.is_new(rel, n.name) else None
            cands = [c for c in self.new_named(f.id) if c[1] is None]
            if len(cands) == 1:
                return cands[0][2], None, cands[0][0], False
            return None
        if isinstance(f, ast.Attribute) and isinstance(f.value, ast.Name):
            recv = f.value.id
            owner = None
            if recv in ('self', 'cls', 'clz') or (cls is not None and recv == cls.name):
                owner = cls
            else:
                for n in getattr(mod, 'body', []):
                    if isinstance(n, ast.ClassDef) and n.name == recv:
                        owner = n
            if owner is None and cls is not None:
                # rv = Representation(..) inside a method of Representation: a local instance of the class
                defs_r = [a_.value for a_ in ast.walk(fn) if isinstance(a_, (ast.Assign, ast.AnnAssign))
                          and getattr(a_, 'value', None) is not None
                          and any(isinstance(t_, ast.Name) and t_.id == recv
                                  for t_ in (a_.targets if isinstance(a_, ast.Assign) else [a_.target]))]
                n_store = sum(1 for x in ast.walk(fn) if isinstance(x, ast.Name) and x.id == recv
                              and isinstance(x.ctx, (ast.Store, ast.Del)))
                if defs_r and n_store == len(defs_r) and all(
                        isinstance(d, ast.Call) and isinstance(d.func, ast.Name) and d.func.id in (cls.name, 'cls', 'clz')
                        for d in defs_r):
                    for m in cls.body:
                        if isinstance(m, (ast.FunctionDef, ast.AsyncFunctionDef)) and m.name == f.attr \
                                and not any(ast.unparse(d).split('.')[-1] in ('staticmethod', 'classmethod', 'property')
                                            for d in m.decorator_list):
                            if self.is_new(rel, f'{cls.name}.{m.name}'):
                                return m, f.value, rel, False
                            return None
            if owner is not None:
                for m in owner.body:
                    if isinstance(m, (ast.FunctionDef, ast.AsyncFunctionDef)) and m.name == f.attr:
                        if self.is_new(rel, f'{owner.name}.{m.name}'):
                            return m, f.value, rel, False
                        return None
            locs = getattr(fn, '_local_classes', None) or {}
            if recv in locs:
                for m in locs[recv].body:
                    if isinstance(m, (ast.FunctionDef, ast.AsyncFunctionDef)) and m.name == f.attr:
                        return m, f.value, rel, False
            if recv in ('self', 'cls', 'clz'):
                cands = [c for c in self.new_named(f.attr) if c[1] is not None]
                if len(cands) == 1:
                    return cands[0][2], f.value, cands[0][0], False
            elif f.attr not in _COMMON_METHOD_NAMES and not f.attr.startswith('__'):
                # w.length_field(..) on a local / parameter: the one new method of that name in the repository,
                # when no other class of the repository (new or old) defines a method of the same name
                cands = [c for c in self.new_named(f.attr) if c[1] is not None
                         and not any(ast.unparse(d).split('.')[-1] in ('staticmethod', 'classmethod', 'property')
                                     for d in c[2].decorator_list)]
                if len(cands) == 1 and self._method_name_is_unique(f.attr):
                    return cands[0][2], f.value, cands[0][0], False
        return None

    def _method_name_is_unique(self, name: str) -> bool:
        cache = getattr(self, '_uniq_cache', None)
        if cache is None:
            cache = self._uniq_cache = {}
        if name not in cache:
            import re as _re
            n = 0
            for rel in self.repo.py_files('dashlive'):
                try:
                    n += len(_re.findall(rf'^\s*(?:async\s+)?def\s+{_re.escape(name)}\s*\(', self.repo.source(rel), _re.M))
                except Exception:       # noqa: BLE001
                    pass
            cache[name] = n == 1
        return cache[name]

    def _new_class(self, name: str, rel, mod):
        for n in getattr(mod, 'body', []):
            if isinstance(n, ast.ClassDef) and n.name == name:
                known = self.baseline.get(rel, [])
                if self.baseline and not any(q.startswith(name + '.') for q in known) \
                        and any(isinstance(m, ast.FunctionDef) for m in n.body):
                    return n
        return None

    def _acceptable(self, callee: ast.FunctionDef) -> bool:
        a = callee.args
        if a.vararg or a.posonlyargs:
            return False
        if a.kwarg:
            # only a pure pass-through: every use of the name is `**name` in a call
            uses = [n for n in ast.walk(callee) if isinstance(n, ast.Name) and n.id == a.kwarg.arg]
            passes = [k for n in ast.walk(callee) if isinstance(n, ast.Call) for k in n.keywords
                      if k.arg is None and isinstance(k.value, ast.Name) and k.value.id == a.kwarg.arg]
            if len(uses) != len(passes) or not passes:
                return False
        for d in callee.decorator_list:
            if not (isinstance(d, ast.Name) and d.id in ('staticmethod', 'classmethod')):
                return False
        if _stmt_count(callee) > MAX_STMTS:
            return False
        for n in ast.walk(callee):
            if isinstance(n, (ast.Yield, ast.YieldFrom, ast.Await, ast.Global, ast.Nonlocal)):
                return False
            if isinstance(n, (ast.FunctionDef, ast.AsyncFunctionDef, ast.Lambda)) and n is not callee:
                if isinstance(n, ast.Lambda):
                    continue
                return False
        return _returns_in_tail_position(self._body(callee))

    @staticmethod
    def _body(callee: ast.FunctionDef) -> list[ast.stmt]:
        body = list(callee.body)
        if body and isinstance(body[0], ast.Expr) and isinstance(body[0].value, ast.Constant) \
                and isinstance(body[0].value.value, str):
            body = body[1:]
        return body

    def _bind(self, call: ast.Call, callee: ast.FunctionDef, recv, caller_names: set[str]):
        """-> (prelude statements, substitution map, rename map) or None"""
        params = [a.arg for a in callee.args.args]
        kinds = {d.id for d in callee.decorator_list if isinstance(d, ast.Name)}
        mapping: dict[str, ast.AST] = {}
        if recv is not None and 'staticmethod' not in kinds and params:
            first = params.pop(0)
            # a classmethod reached through an instance: class attributes and methods are found through
            # the instance as well, so `cls` reads as `self`
            mapping[first] = recv
        elif recv is None and params and params[0] in ('self', 'cls', 'clz') and 'staticmethod' not in kinds \
                and not isinstance(call.func, ast.Name):
            return None
        defaults = callee.args.defaults
        dmap = dict(zip(params[len(params) - len(defaults):], defaults)) if defaults else {}
        kwonly = {a.arg: d for a, d in zip(callee.args.kwonlyargs, callee.args.kw_defaults)}
        actual: dict[str, ast.AST] = {}
        if len(call.args) > len(params) or any(isinstance(a, ast.Starred) for a in call.args):
            return None
        for p, a in zip(params, call.args):
            actual[p] = a
        extra_kw: list[ast.keyword] = []
        for k in call.keywords:
            if k.arg is not None and k.arg not in params and k.arg not in kwonly and callee.args.kwarg:
                extra_kw.append(k)
                continue
            if k.arg is None or (k.arg not in params and k.arg not in kwonly) or k.arg in actual:
                return None
            actual[k.arg] = k.value
        if callee.args.kwarg:
            mapping['**' + callee.args.kwarg.arg] = extra_kw        # type: ignore[assignment]
        for p in params + list(kwonly):
            if p not in actual:
                d = dmap.get(p, kwonly.get(p))
                if d is None:
                    return None
                actual[p] = d
        assigned = {n.id for n in ast.walk(callee) if isinstance(n, ast.Name) and isinstance(n.ctx, ast.Store)}
        locals_ = _assigned_names(callee) - {a.arg for a in callee.args.args} - set(kwonly)
        rename = {n: f'{n}__{callee.name}' for n in locals_ if n in caller_names}
        prelude: list[ast.stmt] = []
        for p, a in actual.items():
            if _simple(a) and p not in assigned:
                mapping[p] = a
            else:
                tgt = f'{p}__{callee.name}' if p in caller_names else p
                if tgt != p:
                    rename[p] = tgt
                prelude.append(ast.copy_location(
                    ast.Assign(targets=[ast.Name(id=tgt, ctx=ast.Store())], value=clone(a)), call))
        return prelude, mapping, rename

    def _to_sink(self, block: list[ast.stmt], sink, budget: list | None = None) -> list[ast.stmt]:
        """the block with every `return e` replaced by sink(e); statements after an `if` that contains a
        return are continued inside the arms that fall through"""
        budget = budget if budget is not None else [400]
        out: list[ast.stmt] = []
        for i, st in enumerate(block):
            if isinstance(st, ast.Return):
                out.extend(sink(st.value if st.value is not None else ast.Constant(value=None), st))
                return out
            has_ret = not isinstance(st, (ast.FunctionDef, ast.AsyncFunctionDef, ast.ClassDef)) \
                and any(isinstance(n, ast.Return) for n in ast.walk(st))
            if has_ret and isinstance(st, ast.If):
                rest = block[i + 1:]
                budget[0] -= len(rest)
                if budget[0] < 0:
                    raise RecursionError('inlining would duplicate too much code')
                body_src = st.body if _always_returns(st.body) else st.body + clone(rest)
                else_src = st.orelse if _always_returns(st.orelse) else st.orelse + clone(rest)
                body = self._to_sink(body_src, sink, budget)
                orelse = self._to_sink(else_src, sink, budget)
                out.append(ast.copy_location(ast.If(test=st.test, body=body or [ast.Pass()], orelse=orelse), st))
                return out
            if has_ret and isinstance(st, (ast.With, ast.AsyncWith)):
                w = clone(st)
                w.body = self._to_sink(st.body, sink, budget) or [ast.Pass()]
                out.append(w)
                return out
            if has_ret and isinstance(st, ast.Try):
                rest = block[i + 1:]
                w = clone(st)
                if not rest and not st.orelse:
                    w.body = self._to_sink(st.body, sink, budget) or [ast.Pass()]
                    for h_new, h_old in zip(w.handlers, st.handlers):
                        h_new.body = self._to_sink(h_old.body, sink, budget) or [ast.Pass()]
                    out.append(w)
                    return out
                budget[0] -= len(rest) * (1 + len(st.handlers))
                if budget[0] < 0:
                    raise RecursionError('inlining would duplicate too much code')
                body_returns = _always_returns(st.body)
                w.body = (self._to_sink(st.body, sink, budget) if body_returns else clone(st.body)) or [ast.Pass()]
                for h_new, h_old in zip(w.handlers, st.handlers):
                    src = h_old.body if _always_returns(h_old.body) else h_old.body + clone(rest)
                    h_new.body = self._to_sink(src, sink, budget) or [ast.Pass()]
                w.orelse = [] if body_returns else self._to_sink(st.orelse + clone(rest), sink, budget)
                out.append(w)
                return out
            out.append(st)
        if sink.needs_value:
            out.extend(sink(ast.Constant(value=None), block[-1] if block else None))
        return out

    def _inline_calls(self, fn, rel, mod, cls, stack, depth) -> bool:
        changed = False
        caller_names = _assigned_names(fn)
        for blk in list(self._blocks(fn)):
            i = 0
            while i < len(blk):
                st = blk[i]
                # if a and helper(b): BODY  (no else)  ->  if a: if helper(b): BODY
                if isinstance(st, ast.If) and not st.orelse and isinstance(st.test, ast.BoolOp) \
                        and isinstance(st.test.op, ast.And) and len(st.test.values) >= 2:
                    def inlinable(e) -> bool:
                        for c in ast.walk(e):
                            if isinstance(c, ast.Call):
                                r_ = self._callee_for(c, fn, rel, mod, cls, stack)
                                if r_ is not None:
                                    b_ = self._body(r_[0])
                                    if not (len(b_) == 1 and isinstance(b_[0], ast.Return)):
                                        return True
                        return False
                    vals = st.test.values
                    k = next((j for j, v in enumerate(vals) if j > 0 and inlinable(v)), None)
                    if k is not None and not any(inlinable(v) for v in vals[:k]):
                        first = vals[0] if k == 1 else ast.BoolOp(op=ast.And(), values=vals[:k])
                        second = vals[k] if k == len(vals) - 1 else ast.BoolOp(op=ast.And(), values=vals[k:])
                        inner = ast.copy_location(ast.If(test=second, body=st.body, orelse=[]), st)
                        st.test = first
                        st.body = [inner]
                        ast.fix_missing_locations(st)
                        changed = True
                        continue
                hoisted = self._hoist(st, fn, rel, mod, cls, stack, caller_names)
                if hoisted is not None:
                    blk[i:i] = [hoisted]
                    changed = True
                    caller_names = _assigned_names(fn)
                    continue            # the new assignment is inlined on the next round
                repl = self._inline_stmt(st, fn, rel, mod, cls, stack, depth, caller_names)
                if repl is not None:
                    blk[i:i + 1] = repl
                    changed = True
                    caller_names = _assigned_names(fn)
                    i += len(repl)
                    continue
                # one-expression helpers inside the statement's expressions
                if self._inline_exprs(st, fn, rel, mod, cls, stack, caller_names):
                    changed = True
                i += 1
        return changed

    def _hoist(self, st, fn, rel, mod, cls, stack, caller_names):
        """`if helper(a):` / `return f(helper(a))` / `x = not helper(a)` with a multi-statement helper:
        move the call into a fresh local assigned just before the statement, when the call is in a
        position that is evaluated first and unconditionally"""
        if isinstance(st, (ast.If, ast.While)):
            if isinstance(st, ast.While):
                return None
            root, field = st, 'test'
        elif isinstance(st, (ast.Assign, ast.AnnAssign, ast.AugAssign, ast.Return, ast.Expr)) \
                and getattr(st, 'value', None) is not None:
            root, field = st, 'value'
            if isinstance(st.value, ast.Call) and self._callee_for(st.value, fn, rel, mod, cls, stack) is not None:
                return None            # handled by _inline_stmt
        elif isinstance(st, ast.For):
            # for x in helper(a): the iterable is evaluated once, before the loop
            root, field = st, 'iter'
        else:
            return None

        def has_call(e) -> bool:
            return any(isinstance(x, (ast.Call, ast.Await, ast.NamedExpr)) for x in ast.walk(e))

        def find(e, setter):
            if isinstance(e, ast.Call):
                r = self._callee_for(e, fn, rel, mod, cls, stack)
                if r is not None:
                    body = self._body(r[0])
                    if not (len(body) == 1 and isinstance(body[0], ast.Return)):
                        return e, setter
                # descend into func receiver / first argument only while earlier parts are call-free
                parts = []
                if isinstance(e.func, ast.Attribute):
                    parts.append((e.func.value, lambda v, e=e: setattr(e.func, 'value', v)))
                for j, a in enumerate(e.args):
                    parts.append((a, lambda v, e=e, j=j: e.args.__setitem__(j, v)))
                for k in e.keywords:
                    parts.append((k.value, lambda v, k=k: setattr(k, 'value', v)))
                for sub, sset in parts:
                    got = find(sub, sset)
                    if got is not None:
                        return got
                    if has_call(sub):
                        return None
                return None
            if isinstance(e, ast.UnaryOp):
                return find(e.operand, lambda v, e=e: setattr(e, 'operand', v))
            if isinstance(e, ast.BoolOp):
                return find(e.values[0], lambda v, e=e: e.values.__setitem__(0, v))
            if isinstance(e, ast.IfExp):
                return find(e.test, lambda v, e=e: setattr(e, 'test', v))
            if isinstance(e, ast.Compare):
                got = find(e.left, lambda v, e=e: setattr(e, 'left', v))
                if got is not None or has_call(e.left):
                    return got
                return find(e.comparators[0], lambda v, e=e: e.comparators.__setitem__(0, v))
            if isinstance(e, ast.BinOp):
                got = find(e.left, lambda v, e=e: setattr(e, 'left', v))
                if got is not None or has_call(e.left):
                    return got
                return find(e.right, lambda v, e=e: setattr(e, 'right', v))
            if isinstance(e, (ast.Tuple, ast.List, ast.Set)):
                for j, x in enumerate(e.elts):
                    got = find(x, lambda v, e=e, j=j: e.elts.__setitem__(j, v))
                    if got is not None:
                        return got
                    if has_call(x):
                        return None
            if isinstance(e, ast.Dict):
                # keys and values are evaluated pairwise, left to right
                for j, (k, x) in enumerate(zip(e.keys, e.values)):
                    if k is not None and has_call(k):
                        return None
                    got = find(x, lambda v, e=e, j=j: e.values.__setitem__(j, v))
                    if got is not None:
                        return got
                    if has_call(x):
                        return None
            if isinstance(e, ast.Subscript):
                got = find(e.value, lambda v, e=e: setattr(e, 'value', v))
                if got is not None or has_call(e.value):
                    return got
                return find(e.slice, lambda v, e=e: setattr(e, 'slice', v))
            if isinstance(e, ast.Attribute):
                return find(e.value, lambda v, e=e: setattr(e, 'value', v))
            if isinstance(e, ast.Starred):
                return find(e.value, lambda v, e=e: setattr(e, 'value', v))
            if isinstance(e, ast.JoinedStr):
                # the fields of an f-string are evaluated left to right
                for p_ in e.values:
                    if isinstance(p_, ast.FormattedValue):
                        got = find(p_.value, lambda v, p_=p_: setattr(p_, 'value', v))
                        if got is not None:
                            return got
                        if has_call(p_.value):
                            return None
                return None
            return None

        got = find(getattr(root, field), lambda v: setattr(root, field, v))
        if got is None and isinstance(st, ast.Assign) and len(st.targets) == 1 \
                and isinstance(st.targets[0], ast.Subscript):
            # d[helper(a)] = value: the value is evaluated before the subscript, so it is named first
            tgot = find(st.targets[0].slice, lambda v: setattr(st.targets[0], 'slice', v)) \
                if not has_call(st.targets[0].value) else None
            if tgot is not None:
                if has_call(st.value):
                    taken_ = caller_names | {x.id for x in ast.walk(fn) if isinstance(x, ast.Name)}
                    n = 1
                    while f'_h{n}' in taken_:
                        n += 1
                    name = f'_h{n}'
                    val = st.value
                    st.value = ast.copy_location(ast.Name(id=name, ctx=ast.Load()), val)
                    return ast.copy_location(ast.Assign(targets=[ast.Name(id=name, ctx=ast.Store())], value=val), st)
                got = tgot
        if got is None:
            return None
        call, setter = got
        taken_ = caller_names | {x.id for x in ast.walk(fn) if isinstance(x, ast.Name)}
        n = 1
        while f'_h{n}' in taken_:
            n += 1
        name = f'_h{n}'
        setter(ast.copy_location(ast.Name(id=name, ctx=ast.Load()), call))
        return ast.copy_location(ast.Assign(targets=[ast.Name(id=name, ctx=ast.Store())], value=call), st)

    def _callee_for(self, call, fn, rel, mod, cls, stack):
        r = self._resolve(call, fn, rel, mod, cls)
        if r is None:
            return None
        callee, recv, owner_rel, nested = r
        if callee.name in stack:
            return None
        if not self._acceptable(callee):
            # the helper in its own normal form (a search loop over a constant table written out)
            busy = getattr(self, '_expanding', None)
            if busy is None:
                busy = self._expanding = set()
            if id(callee) in busy or getattr(callee, '_parent', None) is None:
                return None
            busy.add(id(callee))
            saved = getattr(self, '_cur_fn', None)
            try:
                alt = self.expand(callee)
            except RecursionError:
                alt = callee
            finally:
                busy.discard(id(callee))
                self._cur_fn = saved
            if alt is callee or not self._acceptable(alt):
                return None
            callee = alt
        return callee, recv, owner_rel

    def _inline_stmt(self, st, fn, rel, mod, cls, stack, depth, caller_names):
        call = None
        kind = None
        if isinstance(st, ast.For):
            return self._inline_generator_loop(st, fn, rel, mod, cls, stack, depth, caller_names)
        if isinstance(st, ast.With):
            return self._inline_context_manager(st, fn, rel, mod, cls, stack, depth, caller_names)
        if isinstance(st, (ast.Assign, ast.AnnAssign, ast.AugAssign)) and isinstance(st.value, ast.Call):
            call, kind = st.value, 'assign'
        elif isinstance(st, ast.Return) and isinstance(st.value, ast.Call):
            call, kind = st.value, 'return'
        elif isinstance(st, ast.Expr) and isinstance(st.value, ast.Call):
            call, kind = st.value, 'expr'
        if call is None:
            return None
        # x = NewClass(args): the constructor of a class that is new relative to the inventory
        if kind == 'assign' and isinstance(st, (ast.Assign, ast.AnnAssign)) and isinstance(call.func, ast.Name):
            tgt = st.targets[0] if isinstance(st, ast.Assign) and len(st.targets) == 1 else getattr(st, 'target', None)
            ncls = self._new_class(call.func.id, rel, mod)
            if ncls is not None and isinstance(tgt, ast.Name):
                init = next((m for m in ncls.body if isinstance(m, ast.FunctionDef) and m.name == '__init__'), None)
                if init is not None and '__init__' + ncls.name not in stack and self._acceptable(init):
                    b0 = self._bind(call, init, ast.Name(id=tgt.id, ctx=ast.Load()), caller_names)
                    if b0 is not None:
                        prelude0, mapping0, rename0 = b0
                        body0 = clone(self._body(init))
                        holder0 = ast.Module(body=body0, type_ignores=[])
                        _Sub(mapping0, rename0).visit(holder0)
                        alloc = clone(st)
                        alloc.value = ast.Call(
                            func=ast.Attribute(value=ast.Name(id=ncls.name, ctx=ast.Load()), attr='__new__', ctx=ast.Load()),
                            args=[ast.Name(id=ncls.name, ctx=ast.Load())], keywords=[])

                        def sink0(value, at):
                            return []
                        sink0.needs_value = False
                        out0 = [alloc] + prelude0 + self._to_sink(holder0.body, sink0)
                        locs = getattr(fn, '_local_classes', None)
                        if locs is None:
                            locs = fn._local_classes = {}
                        locs[tgt.id] = ncls
                        self.inlined.append(f'{rel}::{ncls.name}.__init__ -> {fn.name}')
                        return [ast.copy_location(x, st) if not hasattr(x, 'lineno') else x for x in out0]
        r = self._callee_for(call, fn, rel, mod, cls, stack)
        if r is None:
            return None
        callee, recv, owner_rel = r
        b = self._bind(call, callee, recv, caller_names)
        if b is None:
            return None
        prelude, mapping, rename = b
        body = clone(self._body(callee))
        holder = ast.Module(body=body, type_ignores=[])
        _Sub(mapping, rename).visit(holder)
        body = holder.body
        return self._finish_inline(st, kind, fn, rel, mod, cls, stack, depth, callee, owner_rel, prelude, body)

    def _inline_generator_loop(self, st: ast.For, fn, rel, mod, cls, stack, depth, caller_names):
        """`for x in self.gen(a): BODY` with a new generator helper: the helper's body with every
        `yield e` replaced by `x = e; BODY`.  Only when BODY has no break/continue of its own loop, the
        helper has no `return`, and every yield is a statement."""
        if st.orelse or not isinstance(st.iter, ast.Call):
            return None
        r = self._resolve(st.iter, fn, rel, mod, cls)
        if r is None:
            return None
        callee, recv, owner_rel, nested = r
        if callee.name in stack or not self._acceptable_generator(callee):
            return None
        callee = self._prepared_generator(callee)

        def own_jumps(stmts) -> bool:
            for x in stmts:
                if isinstance(x, (ast.Break, ast.Continue)):
                    return True
                if isinstance(x, (ast.For, ast.While, ast.FunctionDef, ast.AsyncFunctionDef, ast.ClassDef)):
                    if isinstance(x, (ast.For, ast.While)) and own_jumps(x.orelse):
                        return True
                    continue
                for f_ in ('body', 'orelse', 'finalbody'):
                    if own_jumps(getattr(x, f_, []) or []):
                        return True
                for h in getattr(x, 'handlers', []) or []:
                    if own_jumps(h.body):
                        return True
            return False
        if own_jumps(st.body):
            return None
        b = self._bind(st.iter, callee, recv, caller_names | _assigned_names(st))
        if b is None:
            return None
        prelude, mapping, rename = b
        body = clone(self._body(callee))
        holder = ast.Module(body=body, type_ignores=[])
        _Sub(mapping, rename).visit(holder)

        def repl(stmts: list[ast.stmt]) -> list[ast.stmt]:
            out: list[ast.stmt] = []
            for x in stmts:
                if isinstance(x, ast.Expr) and isinstance(x.value, ast.Yield):
                    val = x.value.value if x.value.value is not None else ast.Constant(value=None)
                    out.append(ast.copy_location(ast.Assign(targets=[clone(st.target)], value=val), x))
                    out.extend(clone(st.body))
                    continue
                for f_ in ('body', 'orelse', 'finalbody'):
                    if isinstance(getattr(x, f_, None), list) and not isinstance(x, (ast.FunctionDef, ast.ClassDef)):
                        setattr(x, f_, repl(getattr(x, f_)))
                for h in getattr(x, 'handlers', []) or []:
                    h.body = repl(h.body)
                out.append(x)
            return out
        new_body = prelude + repl(holder.body)
        self.inlined.append(f'{owner_rel}::{callee.name} -> {fn.name}')
        for x in new_body:
            ast.fix_missing_locations(x) if hasattr(x, 'lineno') else ast.copy_location(x, st)
        return [ast.copy_location(x, st) if not hasattr(x, 'lineno') else x for x in new_body]

    def _inline_context_manager(self, st: ast.With, fn, rel, mod, cls, stack, depth, caller_names):
        """`with self.cm(a) [as x]: BODY` where cm is a new @contextmanager helper of the form
        `PRE; yield [v]; POST` (the yield at the top level, no try around it, or exactly
        `PRE; try: yield [v] finally: POST`): `PRE; [x = v;] BODY; POST` / the same with try/finally."""
        if len(st.items) != 1 or not isinstance(st.items[0].context_expr, ast.Call):
            return None
        item = st.items[0]
        r = self._resolve(item.context_expr, fn, rel, mod, cls)
        if r is None:
            return None
        callee, recv, owner_rel, nested = r
        if callee.name in stack:
            return None
        decs = [ast.unparse(d).split('.')[-1] for d in callee.decorator_list]
        if 'contextmanager' not in decs or any(d not in ('contextmanager', 'staticmethod', 'classmethod') for d in decs):
            return None
        a = callee.args
        if a.vararg or a.posonlyargs or a.kwarg or _stmt_count(callee) > MAX_STMTS:
            return None
        for n in ast.walk(callee):
            if isinstance(n, (ast.YieldFrom, ast.Await, ast.Global, ast.Nonlocal, ast.Return, ast.Lambda)):
                return None
            if isinstance(n, (ast.FunctionDef, ast.AsyncFunctionDef)) and n is not callee:
                return None
        body = self._body(callee)
        yields = [n for n in ast.walk(callee) if isinstance(n, ast.Yield)]
        if len(yields) != 1:
            return None
        # the body of the with statement must not leave it other than by falling off its end
        for n in ast.walk(ast.Module(body=st.body, type_ignores=[])):
            if isinstance(n, (ast.Return, ast.Break, ast.Continue, ast.Yield, ast.YieldFrom)):
                return None

        def is_yield(x) -> bool:
            return isinstance(x, ast.Expr) and x.value is yields[0]
        idx = next((i for i, x in enumerate(body) if is_yield(x)), None)
        fin = None
        if idx is None:
            idx = next((i for i, x in enumerate(body) if isinstance(x, ast.Try) and len(x.body) == 1
                        and is_yield(x.body[0]) and not x.handlers and not x.orelse and x.finalbody), None)
            if idx is None or idx != len(body) - 1:
                return None
            fin = body[idx].finalbody
        b = self._bind(item.context_expr, callee, recv, caller_names | _assigned_names(st))
        if b is None:
            return None
        prelude, mapping, rename = b

        def sub(stmts):
            holder = ast.Module(body=clone(list(stmts)), type_ignores=[])
            _Sub(mapping, rename).visit(holder)
            return holder.body
        pre = sub(body[:idx])
        bind_x = []
        if item.optional_vars is not None:
            val = yields[0].value if yields[0].value is not None else ast.Constant(value=None)
            bind_x = sub([ast.Assign(targets=[clone(item.optional_vars)], value=val)])
            bind_x[0].targets = [clone(item.optional_vars)]
        if fin is None:
            out = prelude + pre + bind_x + list(st.body) + sub(body[idx + 1:])
        else:
            out = prelude + pre + [ast.Try(body=bind_x + list(st.body), handlers=[], orelse=[], finalbody=sub(fin))]
        self.inlined.append(f'{owner_rel}::{callee.name} -> {fn.name}')
        res = []
        for x in out:
            if not hasattr(x, 'lineno'):
                ast.copy_location(x, st)
            ast.fix_missing_locations(x)
            res.append(x)
        return res

    def _prepared_generator(self, callee: ast.FunctionDef) -> ast.FunctionDef:
        """the generator with `yield from E` written as `for _yf in E: yield _yf` (cached clone)"""
        cache = getattr(self, '_gen_cache', None)
        if cache is None:
            cache = self._gen_cache = {}
        if id(callee) in cache:
            return cache[id(callee)]
        if not any(isinstance(n, (ast.YieldFrom, ast.Return)) for n in ast.walk(callee)):
            cache[id(callee)] = callee
            return callee
        new = clone(callee)
        # a bare return directly inside the loop that ends the generator leaves that loop and, with it,
        # the generator: a break
        body_ = self._body(new)
        if body_ and isinstance(body_[-1], (ast.While, ast.For)) and not body_[-1].orelse:
            last = body_[-1]

            def to_break(stmts: list) -> None:
                for j, x in enumerate(stmts):
                    if isinstance(x, ast.Return) and x.value is None:
                        stmts[j] = ast.copy_location(ast.Break(), x)
                    elif isinstance(x, (ast.For, ast.While, ast.FunctionDef, ast.AsyncFunctionDef, ast.ClassDef)):
                        continue            # a return inside an inner loop is not a break of the outer one
                    else:
                        for f_ in ('body', 'orelse', 'finalbody'):
                            if isinstance(getattr(x, f_, None), list):
                                to_break(getattr(x, f_))
                        for h in getattr(x, 'handlers', []) or []:
                            to_break(h.body)
            to_break(last.body)
        # `if c: return` outside every loop: the rest of the block goes under `else`
        no_ret = _without_bare_return(new.body)
        if no_ret is not None:
            new.body = no_ret
        counter = [0]
        ok = True
        for blk in list(self._blocks(new)):
            for i, st in enumerate(blk):
                if isinstance(st, ast.Expr) and isinstance(st.value, ast.YieldFrom):
                    counter[0] += 1
                    v = f'_yf{counter[0]}'
                    loop = ast.For(target=ast.Name(id=v, ctx=ast.Store()), iter=st.value.value,
                                   body=[ast.Expr(value=ast.Yield(value=ast.Name(id=v, ctx=ast.Load())))], orelse=[])
                    ast.copy_location(loop, st)
                    ast.fix_missing_locations(loop)
                    blk[i] = loop
        if any(isinstance(n, ast.YieldFrom) for n in ast.walk(new)):
            ok = False
        cache[id(callee)] = new if ok else callee
        if ok:
            cache[id(new)] = new
        return cache[id(callee)]

    def _acceptable_generator(self, callee: ast.FunctionDef) -> bool:
        callee = self._prepared_generator(callee)
        a = callee.args
        if a.vararg or a.posonlyargs or a.kwarg:
            return False
        for d in callee.decorator_list:
            if not (isinstance(d, ast.Name) and d.id in ('staticmethod', 'classmethod')):
                return False
        if _stmt_count(callee) > MAX_STMTS:
            return False
        yields = 0
        for n in ast.walk(callee):
            if isinstance(n, (ast.YieldFrom, ast.Await, ast.Global, ast.Nonlocal, ast.Return, ast.Lambda)):
                return False
            if isinstance(n, (ast.FunctionDef, ast.AsyncFunctionDef)) and n is not callee:
                return False
            if isinstance(n, ast.Yield):
                yields += 1
        stmts = sum(1 for n in ast.walk(callee) if isinstance(n, ast.Expr) and isinstance(n.value, ast.Yield))
        return yields > 0 and yields == stmts

    def _finish_inline(self, st, kind, fn, rel, mod, cls, stack, depth, callee, owner_rel, prelude, body):
        def sink(value, at):
            if kind == 'assign':
                s2 = clone(st)
                s2.value = value
                return [ast.copy_location(s2, at if at is not None else st)]
            if kind == 'return':
                return [ast.copy_location(ast.Return(value=value), at if at is not None else st)]
            if isinstance(value, ast.Constant):
                return []
            return [ast.copy_location(ast.Expr(value=value), at if at is not None else st)]
        sink.needs_value = kind in ('assign', 'return')
        out = prelude + self._to_sink(body, sink)
        # the helper's own calls of further new helpers
        wrapper = ast.FunctionDef(name=fn.name, args=fn.args, body=out or [ast.Pass()], decorator_list=[],
                                  returns=None, type_comment=None, type_params=[])
        owner_mod, owner_cls = mod, cls
        if owner_rel != rel:
            owner_mod = self.repo.tree(owner_rel)
            owner_cls = next((c for c in owner_mod.body if isinstance(c, ast.ClassDef)
                              and any(m is callee for m in c.body)), None)
        elif cls is None or not any(m is callee for m in getattr(cls, 'body', [])):
            owner_cls = next((c for c in getattr(mod, 'body', []) if isinstance(c, ast.ClassDef)
                              and any(m is callee for m in c.body)), cls)
        self._expand_fn(wrapper, owner_rel, owner_mod, owner_cls, stack + (callee.name,), depth + 1)
        self.inlined.append(f'{owner_rel}::{callee.name} -> {fn.name}')
        return wrapper.body

    def _inline_exprs(self, st, fn, rel, mod, cls, stack, caller_names) -> bool:
        changed = False

        class T(ast.NodeTransformer):
            def visit_Call(inner, node: ast.Call):
                nonlocal changed
                inner.generic_visit(node)
                r = self._callee_for(node, fn, rel, mod, cls, stack)
                if r is None:
                    return node
                callee, recv, owner_rel = r
                body = self._body(callee)
                if len(body) != 1 or not isinstance(body[0], ast.Return) or body[0].value is None:
                    return node
                b = self._bind(node, callee, recv, caller_names)
                if b is None:
                    return node
                prelude, mapping, rename = b
                if prelude:
                    # substitute side-effect free arguments even when they are used more than once
                    for p in prelude:
                        if not _pure(p.value):
                            return node
                        name = p.targets[0].id
                        orig = next((k for k, v in rename.items() if v == name), name)
                        mapping[orig] = p.value
                        rename.pop(orig, None)
                expr = clone(body[0].value)
                holder = ast.Expression(body=expr)
                _Sub(mapping, rename).visit(holder)
                changed = True
                self.inlined.append(f'{owner_rel}::{callee.name} -> {fn.name} (expression)')
                return ast.copy_location(holder.body, node)

        # only the statement's own expressions, not nested statements (they are visited as blocks)
        for field, value in ast.iter_fields(st):
            if isinstance(value, ast.expr):
                setattr(st, field, T().visit(value))
            elif isinstance(value, list):
                for j, v in enumerate(value):
                    if isinstance(v, ast.expr):
                        value[j] = T().visit(v)
                    elif isinstance(v, (ast.keyword, ast.withitem, ast.comprehension)):
                        T().visit(v)
        return changed


def propagate_attr_aliases(fn: ast.AST) -> ast.AST:
    """copy of `fn` in which a local that is assigned exactly once, from a plain attribute chain
    (`ref = self.stream_reference`), is replaced by that chain at every later read - provided `fn`
    itself never stores to the chain or to a prefix of it.  The defining assignment stays."""
    from .core import dotted
    new = clone(fn)
    params = {a.arg for a in new.args.args + new.args.kwonlyargs} if hasattr(new, 'args') else set()
    defs: dict[str, list] = {}
    stores: set[str] = set()
    for n in ast.walk(new):
        tgts = []
        if isinstance(n, ast.Assign):
            tgts = n.targets
        elif isinstance(n, (ast.AnnAssign, ast.AugAssign)):
            tgts = [n.target]
        elif isinstance(n, (ast.For, ast.comprehension)):
            tgts = [n.target]
        elif isinstance(n, (ast.With,)):
            tgts = [i.optional_vars for i in n.items if i.optional_vars is not None]
        elif isinstance(n, ast.NamedExpr):
            tgts = [n.target]
        for t in tgts:
            for x in ast.walk(t):
                if isinstance(x, ast.Name) and isinstance(x.ctx, ast.Store):
                    plain = isinstance(n, (ast.Assign, ast.AnnAssign)) and t is x and \
                        (not isinstance(n, ast.Assign) or len(n.targets) == 1) and getattr(n, 'value', None) is not None
                    defs.setdefault(x.id, []).append(n if plain else None)
                elif isinstance(x, ast.Attribute) and isinstance(x.ctx, ast.Store):
                    d = dotted(x)
                    if d:
                        stores.add(d)
    amap: dict[str, ast.AST] = {}
    for name, ds in defs.items():
        if name in params or len(ds) != 1 or ds[0] is None:
            continue
        val = ds[0].value
        d = dotted(val)
        if not d or not isinstance(val, ast.Attribute):
            continue
        if any(d == s_ or d.startswith(s_ + '.') for s_ in stores):
            # the chain is stored to: still the same value while every read of the local comes before the first
            # such store (straight-line code only: no loop could bring a read after a store)
            if any(isinstance(x, (ast.For, ast.While, ast.AsyncFor)) for x in ast.walk(new)):
                continue
            pos: dict[int, int] = {}
            counter = [0]

            def number(stmts):
                for st_ in stmts:
                    counter[0] += 1
                    nested = []
                    for f_ in ('body', 'orelse', 'finalbody'):
                        b_ = getattr(st_, f_, None)
                        if isinstance(b_, list) and b_ and isinstance(b_[0], ast.stmt):
                            nested.append(b_)
                    for h_ in getattr(st_, 'handlers', []) or []:
                        nested.append(h_.body)
                    inner = {id(x) for b_ in nested for y in b_ for x in ast.walk(y)}
                    for x in ast.walk(st_):
                        if id(x) not in inner:
                            pos[id(x)] = counter[0]
                    for b_ in nested:
                        number(b_)
            number(new.body)
            first_store = min((pos.get(id(x), 10 ** 9) for x in ast.walk(new) if isinstance(x, ast.Attribute)
                               and isinstance(x.ctx, ast.Store) and (dotted(x) or '') and
                               (d == dotted(x) or d.startswith((dotted(x) or '') + '.'))), default=10 ** 9)
            reads = [pos.get(id(x), 10 ** 9) for x in ast.walk(new) if isinstance(x, ast.Name) and x.id == name
                     and isinstance(x.ctx, ast.Load)]
            if not reads or max(reads) >= first_store:
                continue
        root = d.split('.')[0]
        if root in defs and root not in params and not (len(defs[root]) == 1 and defs[root][0] is not None):
            continue            # (a root that is itself a local bound once is as stable as a parameter)
        amap[name] = val
    if not amap:
        return new

    class T(ast.NodeTransformer):
        def visit_Name(self, node):
            if isinstance(node.ctx, ast.Load) and node.id in amap:
                return ast.copy_location(clone(amap[node.id]), node)
            return node
    return T().visit(new)


def propagate_single_use(fn: ast.AST) -> ast.AST:
    """`fn` (changed in place) with `t = <call-free expr>; <simple statement reading t once>` written as the
    one statement, when `t` is assigned once and read once in the whole function: a name that only
    labels a value for the next line"""
    def is_free(e: ast.AST) -> bool:
        return not any(isinstance(x, (ast.Call, ast.Await, ast.Yield, ast.YieldFrom, ast.NamedExpr, ast.Lambda))
                       for x in ast.walk(e))
    while True:
        stores: dict[str, int] = {}
        loads: dict[str, int] = {}
        for n in ast.walk(fn):
            if isinstance(n, ast.Name):
                d = stores if isinstance(n.ctx, (ast.Store, ast.Del)) else loads
                d[n.id] = d.get(n.id, 0) + 1
        params = {a.arg for a in fn.args.args + fn.args.kwonlyargs} if hasattr(fn, 'args') else set()
        done = False
        for n in ast.walk(fn):
            for fld in ('body', 'orelse', 'finalbody'):
                blk = getattr(n, fld, None)
                if not (isinstance(blk, list) and blk and isinstance(blk[0], ast.stmt)):
                    continue
                for i in range(len(blk) - 1):
                    a, b = blk[i], blk[i + 1]
                    if not (isinstance(a, ast.Assign) and len(a.targets) == 1 and isinstance(a.targets[0], ast.Name)
                            and isinstance(b, (ast.Expr, ast.Assign, ast.AugAssign, ast.Return, ast.AnnAssign))):
                        continue
                    t = a.targets[0].id
                    if t in params or stores.get(t) != 1 or loads.get(t) != 1:
                        continue
                    hits = [x for x in ast.walk(b) if isinstance(x, ast.Name) and x.id == t and isinstance(x.ctx, ast.Load)]
                    if len(hits) != 1:
                        continue
                    if not is_free(a.value):
                        # a temporary of the normal form (`_h1 = <call>; acc.append(_h1)`): put back where it is the
                        # only thing the next statement evaluates besides plain names
                        import re as _re
                        calls_b = [x for x in ast.walk(b) if isinstance(x, (ast.Call, ast.Await, ast.Yield, ast.YieldFrom,
                                                                              ast.NamedExpr, ast.Subscript, ast.BinOp))]
                        if not (_re.fullmatch(r'_h\d+', t) and len(calls_b) <= 1
                                and all(isinstance(c_, ast.Call) and any(a_ is hits[0] for a_ in c_.args) for c_ in calls_b)):
                            continue
                    # names the expression reads must not be rebound by the reading statement before the read
                    # (an augmented assignment reads its target first: harmless for a call-free expression)

                    class S(ast.NodeTransformer):
                        def visit_Name(self, node):
                            if node is hits[0]:
                                return ast.copy_location(clone(a.value), node)
                            return node
                    S().visit(b)
                    del blk[i]
                    done = True
                    break
                if done:
                    break
            if done:
                break
        if not done:
            break
    ast.fix_missing_locations(fn)
    return fn


def set_parents(fn: ast.AST) -> ast.AST:
    for node in ast.walk(fn):
        for child in ast.iter_child_nodes(node):
            child._parent = node          # type: ignore[attr-defined]
    return fn

"""E9 - time algebra: the zone domain specialised to datetime / timedelta code.

Instants and durations are real numbers of seconds (only differences between
instants are ever constrained, so no origin is needed).  On top of ZoneDomain:

* calendar floors.  `now.replace(hour=0, minute=0, second=0, microsecond=0)` is the
  ghost variable `now@day`; likewise `@sec`, `@month`, `@year`.  The ghosts are
  whole seconds and form a chain  now@year <= now@month <= now@day <= now@sec <= now
  with the calendar spans as difference bounds (a month has at most 31 days, a
  year at most 366).  Any other min-valued `replace` gives  x - span <= r <= x.
* `.hour == 0 and .minute == 0` on `now` / `now@sec` is the difference test
  `x - now@day < 60`.
* `datetime.timedelta(...)` is the linear combination of its arguments,
  `.total_seconds()` the identity, `datetime.datetime(<constants>)` a constant offset from
  the ghost `EPOCH` (the clock axiom `now >= EPOCH + 2020-01-01` is the caller's).
* None-ness of option values as facts (`none:x` / `some:x`), refined by `is None`
  tests and truthiness; truthiness of an integer splits into x <= -1 / x >= 1.
* floor multiples.  `k = int(E // P)` followed by `k * P` is a value r with
  E - P < r <= E and r >= 0 when E >= 0 (needs P > 0, recorded as an obligation);
  tagged so that a client can recognise `A + k*P`.
* exact differences.  `d = X - A` (both instants) is remembered (`diff:d`) until one of
  the three is reassigned, so that `A + r` with r <= d is known to be <= X - a
  three-variable fact a zone cannot hold.

Everything is an over-approximation; nothing is executed.
"""
from __future__ import annotations

import ast
import calendar
import datetime as _dt
import math
from dataclasses import replace as _dc_replace

from .absint import AVal, BELOW_ONE, INF, ZERO, Zone, ZoneDomain
from .core import dotted, norm

DAY = 86400
FIELD_MIN = {'microsecond': 0, 'second': 0, 'minute': 0, 'hour': 0, 'day': 1, 'month': 1}
# largest decrease caused by forcing one field to its minimum
FIELD_SPAN = {'microsecond': BELOW_ONE, 'second': 59, 'minute': 59 * 60, 'hour': 23 * 3600,
              'day': 30 * DAY, 'month': 335 * DAY}
GRAN = {
    frozenset({'microsecond'}): 'sec',
    frozenset({'microsecond', 'second', 'minute', 'hour'}): 'day',
    frozenset({'microsecond', 'second', 'minute', 'hour', 'day'}): 'month',
    frozenset({'microsecond', 'second', 'minute', 'hour', 'day', 'month'}): 'year',
}
TD_UNITS = {'days': DAY, 'seconds': 1, 'minutes': 60, 'hours': 3600, 'weeks': 7 * DAY,
            'milliseconds': 1e-3, 'microseconds': 1e-6}
TD_ORDER = ('days', 'seconds', 'microseconds', 'milliseconds', 'minutes', 'hours', 'weeks')


def clock_axioms(s: Zone, root: str = 'now', not_before: int = 1577836800) -> None:
    """ghost floors of the clock variable and the clock axiom"""
    sec, day, mon, yr = (f'{root}@{g}' for g in ('sec', 'day', 'month', 'year'))
    for g in (sec, day, mon, yr, 'EPOCH'):
        s.ints.add(g)
    s.add(sec, root, 0)
    s.add(root, sec, BELOW_ONE)
    s.add(day, sec, 0)
    s.add(sec, day, DAY - 1)
    s.add(mon, day, 0)
    s.add(day, mon, 30 * DAY)
    s.add(yr, mon, 0)
    s.add(mon, yr, 335 * DAY)
    s.add('EPOCH', root, -not_before)
    s.add('EPOCH', yr, -(not_before - 366 * DAY))
    s.close()


class TimeDomain(ZoneDomain):
    def __init__(self, clock: str = 'now', attr_roots=('self', 'options'), pure_calls=None) -> None:
        super().__init__(call_hook=None, pure_calls=pure_calls or set(), attr_roots=attr_roots)
        self.clock = clock
        self.obligations: list[tuple[ast.AST, str, bool, str]] = []   # node, text, proved, path

    # -- helpers ---------------------------------------------------------------
    def _exactly(self, v: AVal, s: Zone, names: tuple[str, ...]) -> str | None:
        """is v provably equal to one of the named variables?"""
        if v.base is None or v.lo != 0 or v.hi != 0:
            return None
        if v.base in names:
            return v.base
        s.close()
        for n in names:
            if s.upper_diff(v.base, n) <= 0 and s.upper_diff(n, v.base) <= 0:
                return n
        return None

    def diff_of(self, s: Zone, var: str):
        """(X, A) when `var` is known to be exactly X - A: recorded for var itself or for a variable
        the zone knows to be equal to it (a local copy)"""
        d = s.aux.get(f'diff:{var}')
        if d is not None:
            return d
        s.close()
        for k, d in s.aux.items():
            if k.startswith('diff:'):
                v = k[5:]
                if s.upper_diff(v, var) <= 0 and s.upper_diff(var, v) <= 0:
                    return d
        return None

    def same(self, s: Zone, a: str, b: str) -> bool:
        if a == b:
            return True
        s.close()
        return s.upper_diff(a, b) <= 0 and s.upper_diff(b, a) <= 0

    def _int_tighten(self, s: Zone) -> None:
        s.close()
        # d == X - A exactly: the bounds of d are bounds of the difference and vice versa
        for k, d in list(s.aux.items()):
            if not k.startswith('diff:'):
                continue
            dv, (x, a) = k[5:], d
            lo, hi = s.bound(dv)
            s.add(x, a, hi)
            s.add(a, x, -lo)
            s.add(dv, ZERO, s.upper_diff(x, a))
            s.add(ZERO, dv, s.upper_diff(a, x))
        s.close()
        changed = False
        for (a, b), c in list(s.m.items()):
            ai = a == ZERO or a in s.ints
            bi = b == ZERO or b in s.ints
            if ai and bi and abs(c) != INF and c != math.floor(c):
                s.m[(a, b)] = math.floor(c)
                s.dirty = True
                changed = True
        if changed:
            s.close()

    # -- evaluation --------------------------------------------------------------
    def eval(self, e: ast.AST, s: Zone) -> AVal:
        if isinstance(e, ast.Constant) and e.value is None:
            return AVal(None, -INF, INF, False, tag=('none',))
        if isinstance(e, ast.Name) and f'snap:{e.id}' in s.aux:
            # a local that holds a floor multiple (or instant + floor multiple): read it as the value it
            # was given, so that `d = k * p; t = a + d` is judged like `t = a + k * p`
            return s.aux[f'snap:{e.id}']
        v = super().eval(e, s)
        return v

    def _call(self, e: ast.Call, s: Zone) -> AVal:
        cn = dotted(e.func)
        f = e.func
        # x.total_seconds()
        if isinstance(f, ast.Attribute) and f.attr == 'total_seconds' and not e.args:
            return self.eval(f.value, s)
        # x.replace(field=min, ...)
        if isinstance(f, ast.Attribute) and f.attr == 'replace' and not e.args and e.keywords \
                and all(k.arg in FIELD_MIN for k in e.keywords):
            v = self.eval(f.value, s)
            if v.base is not None and v.lo == 0 == v.hi and not v.tag and f'tag:{v.base}' in s.aux \
                    and v.base in s.ints:
                v = _dc_replace(v, tag=s.aux[f'tag:{v.base}'])
            ok = all(isinstance(k.value, ast.Constant) and k.value.value == FIELD_MIN[k.arg]
                     for k in e.keywords)
            if not ok:
                return AVal.top()
            fields = frozenset(k.arg for k in e.keywords)
            root = self._exactly(v, s, (self.clock,) + tuple(f'{self.clock}@{g}' for g in GRAN.values()))
            if root is not None and '@' in root:
                # already floored (a whole second, midnight, ...): those fields are at their minimum
                done = next(fs for fs, g in GRAN.items() if g == root.split('@', 1)[1])
                fields = fields | done
            if root is not None and fields in GRAN:
                return AVal(f'{self.clock}@{GRAN[fields]}', 0, 0, True)
            span = sum(FIELD_SPAN[k] for k in fields)
            whole = 'microsecond' in fields
            extra = []
            for var, lo, hi in v.extra:
                keep_lo = lo
                if lo > -INF:
                    if whole and fields == {'microsecond'} and (var in s.ints or var == ZERO) \
                            and lo == math.floor(lo):
                        keep_lo = lo          # floor(y) >= V + c for whole V, c
                    else:
                        keep_lo = lo - span
                extra.append((var, keep_lo, hi))
            # flooring to the second keeps `a + k*p` only if the value already is on a whole second
            tag = v.tag if (whole and fields == {'microsecond'} and v.isint) else ()
            if v.base is None:
                lo, hi = v.lo, v.hi
                return AVal(None, (math.floor(lo) if fields == {'microsecond'} and lo > -INF else lo - span),
                            hi, whole, tuple(extra), tag)
            lo = v.lo - span
            if whole and fields == {'microsecond'} and v.base in s.ints and v.lo == math.floor(v.lo):
                lo = v.lo
            return AVal(v.base, lo, v.hi, whole, tuple(extra), tag)
        # datetime.timedelta(...)
        if cn in ('datetime.timedelta', 'timedelta'):
            parts: list[tuple[float, AVal]] = []
            for i, a in enumerate(e.args):
                if i >= len(TD_ORDER):
                    return AVal.top()
                parts.append((TD_UNITS[TD_ORDER[i]], self.eval(a, s)))
            for k in e.keywords:
                if k.arg not in TD_UNITS:
                    return AVal.top()
                parts.append((TD_UNITS[k.arg], self.eval(k.value, s)))
            if not parts:
                return AVal.const(0)
            if len(parts) == 1 and parts[0][0] == 1:
                return parts[0][1]
            lo = hi = 0.0
            for c, v in parts:
                vlo, vhi = self.interval(v, s)
                lo += c * vlo
                hi += c * vhi
            whole = all(c >= 1 and v.isint for c, v in parts)
            return AVal(None, lo, hi, whole)
        # datetime.datetime(<constants>)
        if cn in ('datetime.datetime', 'datetime') and e.args \
                and all(isinstance(a, ast.Constant) and isinstance(a.value, int) for a in e.args):
            try:
                t = _dt.datetime(*[a.value for a in e.args])
            except (ValueError, TypeError):
                return AVal.top()
            c = calendar.timegm(t.timetuple())
            return AVal('EPOCH', c, c, t.microsecond == 0)
        if cn == 'int' and len(e.args) == 1 and not e.keywords:
            v = self.eval(e.args[0], s)
            lo, hi = self.interval(v, s)
            if v.base is not None and lo >= 0:
                return AVal(v.base, v.lo - BELOW_ONE, v.hi, True,
                            ((ZERO, math.trunc(lo), math.trunc(hi) if hi < INF else INF),))
        return super()._call(e, s)

    def _binop(self, e: ast.BinOp, s: Zone) -> AVal:
        # non-negative quotient of non-negative by positive
        if isinstance(e.op, ast.Div):
            a = self.eval(e.left, s)
            b = self.eval(e.right, s)
            alo, ahi = self.interval(a, s)
            blo, bhi = self.interval(b, s)
            if not (blo == bhi and blo > 0 and blo != INF) and alo >= 0 and blo > 0:
                return AVal(None, 0.0, INF, False)
        # k * P with k = int(E // P)
        if isinstance(e.op, ast.Mult):
            for kn, pn in ((e.left, e.right), (e.right, e.left)):
                kname = self.varname(kn)
                d = s.aux.get(f'fdiv:{kname}') if kname else None
                if d is not None and d[1] == norm(pn):
                    ev = self.eval(d[2], s)
                    pv = self.eval(pn, s)
                    plo, phi = self.interval(pv, s)
                    if plo <= 0:
                        return AVal.top()
                    elo, _ = self.interval(ev, s)
                    extra = ((ZERO, 0.0, INF),) if elo >= 0 else ()
                    # what the latest floor multiple of this period was taken of (read by C08 R08.6)
                    s.aux[f'multof:{norm(pn)}'] = ev.base if (ev.base is not None and ev.lo == 0 == ev.hi) else (
                        f'={ev.lo:g}' if ev.base is None and ev.lo == ev.hi else '?')
                    if ev.base is not None:
                        # the tag remembers what the multiple was taken of: (kind, period, numerator)
                        return AVal(ev.base, ev.lo - phi, ev.hi, pv.isint, extra,
                                    ('mult', norm(pn), ev.base if ev.lo == 0 == ev.hi else ''))
                    return AVal(None, ev.lo - phi, ev.hi, False, extra, ('mult', norm(pn), ''))
        # A + r where d = X - A exactly and r relates to d
        if isinstance(e.op, ast.Add):
            a = self.eval(e.left, s)
            b = self.eval(e.right, s)
            for inst, dur in ((a, b), (b, a)):
                if inst.base is None or dur.base is None or inst.lo != 0 or inst.hi != 0:
                    continue
                df = self.diff_of(s, dur.base)
                if df is not None and self.same(s, df[1], inst.base):
                    dlo, dhi = self.interval(dur, s)
                    extra = [(inst.base, dlo, dhi)]
                    for var, lo, hi in dur.extra:
                        if var == ZERO:
                            extra.append((inst.base, max(lo, dlo), min(hi, dhi)))
                    tag = ('base+mult', inst.base, dur.tag[1], *dur.tag[2:3]) if dur.tag[:1] == ('mult',) else ()
                    return AVal(df[0], dur.lo, dur.hi, inst.isint and dur.isint, tuple(extra), tag)
            # generic: keep the tag and absolute facts of a duration added to an instant
            for inst, dur in ((a, b), (b, a)):
                if inst.base is not None and inst.lo == 0 and inst.hi == 0 and dur.tag[:1] == ('mult',):
                    dlo, dhi = self.interval(dur, s)
                    for var, lo, hi in dur.extra:
                        if var == ZERO:
                            dlo, dhi = max(dlo, lo), min(dhi, hi)
                    return AVal(inst.base, dlo, dhi, inst.isint and dur.isint, (),
                                ('base+mult', inst.base, dur.tag[1], *dur.tag[2:3]))
        return super()._binop(e, s)

    # -- statements ---------------------------------------------------------------
    def assign(self, s: Zone, x: str, v: AVal, rhs: ast.AST | None = None) -> None:
        # bookkeeping that depends on x's old identity
        for k in [k for k in s.aux if k.startswith(('diff:', 'fdiv:'))]:
            d = s.aux[k]
            names = d[3] if k.startswith('fdiv:') else (d[0], d[1])
            if k.split(':', 1)[1] == x or x in names:
                if not (v.base == x):           # x := x + c keeps nothing either: the relation moved
                    del s.aux[k]
                else:
                    del s.aux[k]
        s.aux.pop(f'tag:{x}', None)
        for k in [k for k in s.aux if k.startswith('snap:')]:
            sv = s.aux[k]
            if k == f'snap:{x}' or sv.base == x or any(var == x for var, _lo, _hi in sv.extra) \
                    or (len(sv.tag) > 1 and x in sv.tag[1:]):
                del s.aux[k]
        s.facts -= {f'none:{x}', f'some:{x}'}
        s.facts -= {f for f in s.facts if f.startswith((f'str:{x}=', f'strnot:{x}='))}
        super().assign(s, x, v, rhs)
        if v.tag[:1] in (('mult',), ('base+mult',)) and v.base != x and '.' not in x:
            s.aux[f'snap:{x}'] = v
        if v.base is not None and v.base != x and v.lo == 0 == v.hi:
            for f in list(s.facts):
                for k in ('str:', 'strnot:'):
                    if f.startswith(f'{k}{v.base}='):
                        s.facts.add(f'{k}{x}=' + f.split('=', 1)[1])
        for var, lo, hi in v.extra:
            if var == x:
                continue
            if hi < INF:
                s.add(x, var, hi)
            if lo > -INF:
                s.add(var, x, -lo)
        if v.extra:
            s.close()
        if v.isint:
            s.ints.add(x)
        if v.tag == ('none',):
            s.facts.add(f'none:{x}')
        elif v.base is not None and f'none:{v.base}' in s.facts and v.lo == 0 == v.hi:
            s.facts.add(f'none:{x}')
        elif v.base is not None and v.lo == 0 == v.hi and f'some:{v.base}' not in s.facts \
                and v.base.startswith('options.'):
            pass                                  # copies an option that may be None: unknown
        else:
            s.facts.add(f'some:{x}')
        if v.tag and v.tag != ('none',):
            s.aux[f'tag:{x}'] = v.tag
        # remember exact differences and floor quotients
        if isinstance(rhs, ast.BinOp) and isinstance(rhs.op, ast.Sub):
            a, b = self.varname(rhs.left), self.varname(rhs.right)
            r = rhs.right
            if b is None and isinstance(r, ast.Call) and dotted(r.func) in ('datetime.timedelta', 'timedelta') \
                    and not r.args and len(r.keywords) == 1 and r.keywords[0].arg == 'seconds':
                b = self.varname(r.keywords[0].value)
            if a and b and x not in (a, b):
                s.aux[f'diff:{x}'] = (a, b)
        q = rhs
        if isinstance(q, ast.Call) and dotted(q.func) == 'int' and len(q.args) == 1:
            q = q.args[0]
        if isinstance(q, ast.BinOp) and isinstance(q.op, ast.FloorDiv):
            used = tuple(n for n in (self.varname(m) for m in ast.walk(q)) if n)
            if x not in used:
                s.aux[f'fdiv:{x}'] = (norm(q.left), norm(q.right), q.left, used)
        self._int_tighten(s)

    def _transfer(self, st: ast.stmt, s: Zone):
        # divisions need a non-zero divisor
        for n in ast.walk(st):
            if isinstance(n, ast.BinOp) and isinstance(n.op, (ast.FloorDiv, ast.Div, ast.Mod)):
                lo, hi = self.interval(self.eval(n.right, s), s)
                ok = lo > 0 or hi < 0
                self.obligations.append((n, f'divisor `{norm(n.right)}` is never zero', ok,
                                         self.describe_path(s)))
        return super()._transfer(st, s)

    def describe_path(self, s: Zone) -> str:
        return ', '.join(sorted(f for f in s.facts if f.startswith(('start=', 'mup=', 'path:'))))

    # -- refinement ------------------------------------------------------------------
    def _daypart(self, test: ast.AST) -> tuple[ast.AST, int] | None:
        """E.hour == 0 [and E.minute == 0 [and E.second == 0]] -> (E, seconds);
        E.time() < datetime.time(hour=h, minute=m, second=s) -> (E, 3600h + 60m + s)"""
        if isinstance(test, ast.Compare) and len(test.ops) == 1 and isinstance(test.ops[0], ast.Lt) \
                and isinstance(test.left, ast.Call) and isinstance(test.left.func, ast.Attribute) \
                and test.left.func.attr == 'time' and not test.left.args \
                and isinstance(test.comparators[0], ast.Call) \
                and dotted(test.comparators[0].func) in ('datetime.time', 'time'):
            c = test.comparators[0]
            vals = {'hour': 0, 'minute': 0, 'second': 0}
            order = ['hour', 'minute', 'second']
            ok = True
            for i, a in enumerate(c.args):
                if i < 3 and isinstance(a, ast.Constant) and isinstance(a.value, int):
                    vals[order[i]] = a.value
                else:
                    ok = False
            for k in c.keywords:
                if k.arg in vals and isinstance(k.value, ast.Constant) and isinstance(k.value.value, int):
                    vals[k.arg] = k.value.value
                else:
                    ok = False
            secs = vals['hour'] * 3600 + vals['minute'] * 60 + vals['second']
            if ok and secs > 0:
                return test.left.func.value, secs
        parts = test.values if isinstance(test, ast.BoolOp) and isinstance(test.op, ast.And) else [test]
        recv = None
        got = set()
        for p in parts:
            if not (isinstance(p, ast.Compare) and len(p.ops) == 1 and isinstance(p.ops[0], ast.Eq)
                    and isinstance(p.left, ast.Attribute) and p.left.attr in ('hour', 'minute', 'second')
                    and isinstance(p.comparators[0], ast.Constant) and p.comparators[0].value == 0):
                return None
            r = norm(p.left.value)
            if recv is not None and r != recv[0]:
                return None
            recv = (r, p.left.value)
            got.add(p.left.attr)
        for fields, secs in (({'hour'}, 3600), ({'hour', 'minute'}, 60), ({'hour', 'minute', 'second'}, 1)):
            if got == fields:
                return recv[1], secs
        return None

    def assume_split(self, test: ast.AST, s: Zone, truth: bool) -> list:
        if isinstance(test, ast.UnaryOp) and isinstance(test.op, ast.Not):
            return self.assume_split(test.operand, s, not truth)
        if isinstance(test, ast.Name) and f'bool:{test.id}' in s.aux:
            return self.assume_split(s.aux[f'bool:{test.id}'][0], s, truth)     # ok = <test>; if ok:
        dp = self._daypart(test)
        if dp is not None:
            v = self.eval(dp[0], s)
            root = self._exactly(v, s, (self.clock, f'{self.clock}@sec'))
            if root is None:
                return [s]
            day = f'{self.clock}@day'
            if truth:
                s.add(root, day, dp[1] - 1 if root.endswith('@sec') else dp[1] - (1 - BELOW_ONE))
            else:
                s.add(day, root, -dp[1])
            return [s] if s.close() else []
        # (X - Y) <op> c  on two variables: a difference constraint
        if isinstance(test, ast.Compare) and len(test.ops) == 1 \
                and isinstance(test.ops[0], (ast.Lt, ast.LtE, ast.Gt, ast.GtE)):
            for lhs, rhs, flip in ((test.left, test.comparators[0], False),
                                   (test.comparators[0], test.left, True)):
                if isinstance(lhs, ast.BinOp) and isinstance(lhs.op, ast.Sub):
                    xa, ya = self.eval(lhs.left, s), self.eval(lhs.right, s)
                    cv = self.eval(rhs, s)
                    if xa.base is None or ya.base is None or xa.base == ya.base:
                        continue
                    clo, chi = self.interval(cv, s)
                    op = type(test.ops[0])
                    if flip:
                        op = {ast.Lt: ast.Gt, ast.LtE: ast.GtE, ast.Gt: ast.Lt, ast.GtE: ast.LtE}[op]
                    if not truth:
                        op = {ast.Lt: ast.GtE, ast.LtE: ast.Gt, ast.Gt: ast.LtE, ast.GtE: ast.Lt}[op]
                    ints = (xa.base in s.ints and ya.base in s.ints and cv.isint
                            and xa.isint and ya.isint)
                    # X + [xlo,xhi] - Y - [ylo,yhi]  op  c
                    if op in (ast.Lt, ast.LtE):
                        bound = chi - xa.lo + ya.hi - (1 if (op is ast.Lt and ints) else 0)
                        s.add(xa.base, ya.base, bound)
                    else:
                        bound = clo - xa.hi + ya.lo + (1 if (op is ast.Gt and ints) else 0)
                        s.add(ya.base, xa.base, -bound)
                    if not s.close():
                        return []
                    self._int_tighten(s)
                    return [] if s.bottom else [s]
        # x is None / x is not None
        if isinstance(test, ast.Compare) and len(test.ops) == 1 \
                and isinstance(test.ops[0], (ast.Is, ast.IsNot)) \
                and isinstance(test.comparators[0], ast.Constant) and test.comparators[0].value is None:
            x = self.varname(test.left)
            if x is None:
                return [s]
            want_none = isinstance(test.ops[0], ast.Is) == truth
            if want_none:
                if f'some:{x}' in s.facts:
                    return []
                s.facts.add(f'none:{x}')
                s.forget(x)
            else:
                if f'none:{x}' in s.facts:
                    return []
                s.facts.add(f'some:{x}')
            return [s]
        # membership of an option value in a tuple of strings: one path per member
        if isinstance(test, ast.Compare) and len(test.ops) == 1 and isinstance(test.ops[0], (ast.In, ast.NotIn)) \
                and isinstance(test.comparators[0], (ast.Tuple, ast.List, ast.Set)) \
                and test.comparators[0].elts \
                and all(isinstance(e_, ast.Constant) and isinstance(e_.value, str) for e_ in test.comparators[0].elts):
            member = isinstance(test.ops[0], ast.In) == truth
            outs = []
            if member:
                for e_ in test.comparators[0].elts:
                    eq = ast.Compare(left=test.left, ops=[ast.Eq()], comparators=[e_])
                    outs.extend(self.assume_split(eq, s.copy(), True))
                return outs
            cur = [s]
            for e_ in test.comparators[0].elts:
                eq = ast.Compare(left=test.left, ops=[ast.Eq()], comparators=[e_])
                nxt = []
                for z in cur:
                    nxt.extend(self.assume_split(eq, z, False))
                cur = nxt
            return cur
        # string comparison of an option value: a path label
        if isinstance(test, ast.Compare) and len(test.ops) == 1 and isinstance(test.ops[0], ast.Eq) \
                and isinstance(test.comparators[0], ast.Constant) \
                and isinstance(test.comparators[0].value, str):
            x0 = self.varname(test.left)
            if x0 is not None:
                # plain copies of the value (`requested = options.start`) carry the same label
                s.close()
                same = [x0] + sorted({a for (a, b), c in s.m.items() if b == x0 and c == 0 and a != x0
                                      and a != ZERO and s.m.get((x0, a), INF) == 0})
                val = test.comparators[0].value
                for x in same:
                    lab = f'str:{x}='
                    have = [f for f in s.facts if f.startswith(lab)]
                    if truth:
                        if have and have[0] != lab + val:
                            return []
                        if f'strnot:{x}={val}' in s.facts:
                            return []
                    else:
                        if have and have[0] == lab + val:
                            return []
                for x in same:
                    s.facts.add((f'str:{x}=' if truth else f'strnot:{x}=') + val)
            return [s]
        # truthiness of a number (None is falsy)
        x = self.varname(test)
        if x is not None:
            if truth:
                if f'none:{x}' in s.facts:
                    return []
                s.facts.add(f'some:{x}')
                lo, hi = s.bound(x)
                outs = []
                if x in s.ints:
                    for c in ((x, ZERO, -1), (ZERO, x, -1)):
                        z = s.copy()
                        z.add(*c)
                        if z.close():
                            outs.append(z)
                    return outs
                return [s]
            outs = []
            if f'some:{x}' not in s.facts:
                z = s.copy()
                z.facts.add(f'none:{x}')
                z.forget(x)
                outs.append(z)
            if f'none:{x}' not in s.facts:
                z = s.copy()
                z.facts.add(f'some:{x}')
                z.add(x, ZERO, 0)
                z.add(ZERO, x, 0)
                if z.close():
                    self._int_tighten(z)        # d == 0 with d = X - A known: X == A
                    if not z.bottom:
                        outs.append(z)
            return outs
        if isinstance(test, ast.BoolOp):
            outs = super().assume_split(test, s, truth)
        else:
            r = ZoneDomain.assume(self, test, s, truth)
            outs = [r] if r is not None else []
        for z in outs:
            self._int_tighten(z)
        return [z for z in outs if not z.bottom]

    def assume(self, test: ast.AST, s: Zone, truth: bool):
        outs = self.assume_split(test, s, truth)
        if not outs:
            return None
        out = outs[0]
        for o in outs[1:]:
            out = out.join(o)
        return out

"""E13 - abstract interpretation in a term domain (value numbering over straight-line data code).

Some properties are about *which* value a function builds, not about its control flow: the byte
permutation of a GUID, the inputs of three hashes and the terms of an XOR fold.  The function is
interpreted over terms instead of bytes:

  SymStr    a string / byte string whose characters are atoms - `(source, index)` for the i-th
            character of a named input, or a literal character.  Slices, joins, concatenation,
            reversal, comprehensions over constant ranges and `replace(c, '')` are exact.
  Hash      the sequence of values passed to `update()` (through `.copy()`); `.digest()` gives
  Digest    a term naming that sequence; indexing gives a Byte term;
  Xor       a set of terms under symmetric difference (x ^ x cancels), also as elements of a
            `bytearray(n)`.
  Opaque    any other value: the normalised expression text with known locals substituted.  Two
            opaque values are equal when their texts are equal.

Control: constant tests are decided; an undecidable test forks the path (bounded); loops over
constant ranges / literal tuples are unrolled (bounded), a `while` whose test is decided by the values
known at every iteration is unrolled (bounded, no break / continue), any other loop havocs what it assigns.
A rule can hand the evaluator a Model object (a reader over a fixed byte string, a recording field
writer): method calls on it are answered by the model.
`raise` ends a path.  Nothing of the repository is executed: the interpreter only knows the
operations listed above, everything else is an Opaque term.
"""
from __future__ import annotations

import ast
import copy
from dataclasses import dataclass, field

from .core import AnalysisError, dotted, norm

MAX_PATHS = 64
DIGEST_BYTES = 32          # SHA-256, the only hash the interpreter models
UNKNOWN_MEMBER = '<?>'     # marks a set whose contents are not known exactly
MAX_ITER = 512


class Undecided(Exception):
    pass


@dataclass(frozen=True)
class Opaque:
    text: str

    def __repr__(self) -> str:
        return f'<{self.text}>'


@dataclass(frozen=True)
class Term:
    """an uninterpreted call whose arguments are terms: f(arg, ...)"""
    fn: str
    args: tuple
    kwargs: tuple = ()

    def __repr__(self) -> str:
        return f'{self.fn}({", ".join(map(repr, self.args))})'


@dataclass(frozen=True)
class SymStr:
    atoms: tuple
    kind: str = 'str'          # 'str' | 'bytes'

    def __len__(self) -> int:
        return len(self.atoms)


@dataclass(frozen=True)
class Digest:
    inputs: tuple


@dataclass(frozen=True)
class Xor:
    terms: frozenset

    def __xor__(self, other: 'Xor') -> 'Xor':
        return Xor(self.terms ^ other.terms)


class Hash:
    def __init__(self, inputs=()) -> None:
        self.inputs = list(inputs)


class ByteArray(list):
    pass


class Model:
    """an object whose methods are answered by the rule that supplied it (never by repository code)"""
    def call(self, attr: str, args: list, kw: dict):
        return NotImplemented

    def __deepcopy__(self, memo):
        return self             # shared by the paths of one evaluation


class Closure:
    """a function defined inside the function under evaluation, with the environment it closes over"""
    def __init__(self, node: ast.FunctionDef, env: dict) -> None:
        self.node = node
        self.env = env

    def __deepcopy__(self, memo):
        return Closure(self.node, copy.deepcopy(self.env, memo))


@dataclass
class Path:
    env: dict
    result: object = None
    done: str = ''            # '', 'return', 'raise'
    notes: list = field(default_factory=list)


def source(name: str, n: int, kind: str = 'str') -> SymStr:
    return SymStr(tuple((name, i) for i in range(n)), kind)


def _lit(s, kind='str') -> SymStr:
    return SymStr(tuple(s), kind)


def as_symstr(v) -> SymStr | None:
    if isinstance(v, SymStr):
        return v
    if isinstance(v, str):
        return _lit(v)
    if isinstance(v, bytes):
        return SymStr(tuple(v), 'bytes')
    return None


def as_xor(v) -> Xor | None:
    if isinstance(v, Xor):
        return v
    if isinstance(v, int) and not isinstance(v, bool) and v == 0:
        return Xor(frozenset())
    if isinstance(v, Opaque):
        return Xor(frozenset({('opaque', v.text)}))
    return None


class TermEval:
    def __init__(self, consts: dict[str, object] | None = None, hash_ctors=('SHA256.new', 'hashlib.sha256'),
                 hex_pairs: bool = True) -> None:
        self.consts = consts or {}
        self.hash_ctors = hash_ctors
        self.forks = 0
        self.methods: dict[str, ast.FunctionDef] = {}     # helpers of the class under evaluation, by name
        self.depth = 0
        self.observe = None         # callback(call node, env) before a call is evaluated

    @classmethod
    def for_class(cls_, klass: ast.ClassDef, only: tuple[str, ...] | None = None) -> 'TermEval':
        """an evaluator that also runs the helper methods of `klass` when the function under evaluation calls
        them (`only`: restrict to these names)"""
        ev = cls_(class_consts(klass))
        ev.methods = {m.name: m for m in klass.body if isinstance(m, ast.FunctionDef)
                      and (only is None or m.name in only)}
        ev.class_names = (klass.name,)
        return ev

    # ---- expressions --------------------------------------------------------------
    def text(self, e: ast.AST, env: dict) -> str:
        from .normalise import clone

        ev = self

        class T(ast.NodeTransformer):
            def visit_Name(self, node):
                v = env.get(node.id, None)
                if isinstance(v, Opaque):
                    return ast.parse(v.text, mode='eval').body if _parses(v.text) else node
                if isinstance(v, (int, str, bool)) or v is None and node.id in env:
                    return ast.Constant(value=v)
                return node
        return norm(T().visit(clone(e)))

    def eval(self, e: ast.AST, env: dict):
        if self.observe is not None and isinstance(e, ast.Call):
            self.observe(e, env)
        m = getattr(self, '_e_' + type(e).__name__, None)
        if m is not None:
            v = m(e, env)
            if v is not NotImplemented:
                return v
        if isinstance(e, ast.Call) and not any(isinstance(a, ast.Starred) for a in e.args) \
                and all(k.arg for k in e.keywords):
            args = [self.eval(a, env) for a in e.args]
            kws = [(k.arg, self.eval(k.value, env)) for k in e.keywords]
            recv = None
            if isinstance(e.func, ast.Attribute):
                recv = self.eval(e.func.value, env)
            symbolic = (SymStr, Term, Digest, Xor, list, tuple, Hash, dict, set)
            if any(isinstance(a, symbolic) for a in args + [v for _, v in kws]) or isinstance(recv, symbolic):
                if isinstance(recv, symbolic) or isinstance(recv, (str, bytes)):
                    return Term('.' + e.func.attr, (_freeze(recv),) + tuple(_freeze(a) for a in args),
                                tuple((k, _freeze(v)) for k, v in kws))
                return Term(self.text(e.func, env), tuple(_freeze(a) for a in args),
                            tuple((k, _freeze(v)) for k, v in kws))
        return Opaque(self.text(e, env))

    def _e_Constant(self, e, env):
        return e.value

    def _e_Name(self, e, env):
        if e.id in env:
            return env[e.id]
        if e.id in self.consts:
            return self.consts[e.id]
        return Opaque(e.id)

    def _e_Attribute(self, e, env):
        d = dotted(e)
        if d and d in env and d.count('.') == 1:
            return env[d]
        if d and d in self.consts:
            return self.consts[d]
        if d and d.split('.', 1)[-1] in self.consts and d.count('.') == 1:
            return self.consts[d.split('.', 1)[-1]]
        return NotImplemented

    def _e_List(self, e, env):
        return [self.eval(x, env) for x in e.elts]

    def _e_Set(self, e, env):
        vals = [self.eval(x, env) for x in e.elts]
        if all(isinstance(v, (str, int, bytes)) for v in vals):
            return set(vals)
        return NotImplemented

    def _e_Dict(self, e, env):
        out = {}
        for k, v in zip(e.keys, e.values):
            if k is None:
                return NotImplemented
            kv = self.eval(k, env)
            if not isinstance(kv, (str, int, bytes)):
                return NotImplemented
            out[kv] = self.eval(v, env)
        return out

    def _e_Tuple(self, e, env):
        return tuple(self.eval(x, env) for x in e.elts)

    def _e_UnaryOp(self, e, env):
        v = self.eval(e.operand, env)
        if isinstance(e.op, ast.Not):
            try:
                return not self.truth(v)
            except Undecided:
                return NotImplemented
        if isinstance(e.op, ast.USub) and isinstance(v, int):
            return -v
        return NotImplemented

    def _e_BinOp(self, e, env):
        a, b = self.eval(e.left, env), self.eval(e.right, env)
        if isinstance(e.op, ast.BitOr) and isinstance(a, (set, frozenset)) and isinstance(b, (set, frozenset)):
            return set(a) | set(b)
        if isinstance(e.op, ast.BitXor):
            xa, xb = as_xor(a), as_xor(b)
            if xa is not None and xb is not None:
                return xa ^ xb
            return NotImplemented
        if isinstance(a, int) and isinstance(b, int) and not isinstance(a, bool) and not isinstance(b, bool):
            try:
                return {ast.Add: lambda: a + b, ast.Sub: lambda: a - b, ast.Mult: lambda: a * b,
                        ast.FloorDiv: lambda: a // b, ast.Mod: lambda: a % b, ast.LShift: lambda: a << b,
                        ast.RShift: lambda: a >> b, ast.BitAnd: lambda: a & b,
                        ast.BitOr: lambda: a | b}[type(e.op)]()
            except (KeyError, ZeroDivisionError):
                return NotImplemented
        if isinstance(e.op, ast.Add):
            sa, sb = as_symstr(a), as_symstr(b)
            if sa is not None and sb is not None and (isinstance(a, SymStr) or isinstance(b, SymStr)):
                return SymStr(sa.atoms + sb.atoms, sa.kind if isinstance(a, SymStr) else sb.kind)
            if isinstance(a, str) and isinstance(b, str):
                return a + b
            if isinstance(a, list) and isinstance(b, list):
                return list(a) + list(b)
            if isinstance(a, tuple) and isinstance(b, tuple):
                return a + b
        if isinstance(e.op, ast.Mult) and isinstance(b, int) and isinstance(a, (list, str)):
            return a * b
        return NotImplemented

    def _e_Compare(self, e, env):
        if len(e.ops) != 1:
            return NotImplemented
        a, b = self.eval(e.left, env), self.eval(e.comparators[0], env)
        op = e.ops[0]
        if isinstance(op, (ast.Is, ast.IsNot)):
            simple = (bool, type(None))
            if isinstance(a, simple) and isinstance(b, simple):
                return (a is b) == isinstance(op, ast.Is)
            if (a is None or b is None) and not isinstance(a, Opaque) and not isinstance(b, Opaque):
                return isinstance(op, ast.IsNot)
            if isinstance(b, bool) and not isinstance(a, (Opaque, bool)):
                return isinstance(op, ast.IsNot)
            return NotImplemented
        conc = (int, str, bool, bytes)
        if isinstance(a, conc) and isinstance(b, conc):
            try:
                return {ast.Eq: a == b, ast.NotEq: a != b, ast.Lt: a < b, ast.LtE: a <= b, ast.Gt: a > b,
                        ast.GtE: a >= b}[type(op)]
            except (KeyError, TypeError):
                return NotImplemented
        return NotImplemented

    def _e_BoolOp(self, e, env):
        vals = []
        for x in e.values:
            v = self.eval(x, env)
            try:
                t = self.truth(v)
            except Undecided:
                return NotImplemented
            if isinstance(e.op, ast.And) and not t:
                return v
            if isinstance(e.op, ast.Or) and t:
                return v
            vals.append(v)
        return vals[-1]

    def _e_IfExp(self, e, env):
        try:
            t = self.truth(self.eval(e.test, env))
        except Undecided:
            return NotImplemented
        return self.eval(e.body if t else e.orelse, env)

    def _index(self, i, n):
        return i if i >= 0 else n + i

    def _e_Subscript(self, e, env):
        base = self.eval(e.value, env)
        sl = e.slice
        if isinstance(sl, ast.Slice):
            parts = []
            for p in (sl.lower, sl.upper, sl.step):
                v = None if p is None else self.eval(p, env)
                if v is not None and not (isinstance(v, int) and not isinstance(v, bool)):
                    return NotImplemented
                parts.append(v)
            s = slice(*parts)
            sb = as_symstr(base) if not isinstance(base, (list, tuple)) else None
            if isinstance(base, SymStr):
                return SymStr(base.atoms[s], base.kind)
            if isinstance(base, (str, bytes, tuple)):
                return base[s]
            if isinstance(base, list):
                return type(base)(base[s]) if not isinstance(base, ByteArray) else ByteArray(base[s])
            if isinstance(base, Digest):
                # a SHA-256 digest has 32 bytes: a slice is the list of its byte terms
                idxs = list(range(DIGEST_BYTES))[s]
                return [Xor(frozenset({('byte', base, i)})) for i in idxs]
            if isinstance(base, Opaque):
                return Opaque(f'{base.text}[{"" if parts[0] is None else parts[0]}:'
                              f'{"" if parts[1] is None else parts[1]}'
                              + (f':{parts[2]}' if parts[2] is not None else '') + ']')
            return NotImplemented
        idx = self.eval(sl, env)
        if isinstance(base, dict) and isinstance(idx, (str, bytes)):
            return base[idx] if idx in base else NotImplemented
        if isinstance(idx, int) and not isinstance(idx, bool):
            if isinstance(base, SymStr):
                if -len(base) <= idx < len(base):
                    a = base.atoms[idx]
                    return SymStr((a,), base.kind) if base.kind == 'str' else Xor(frozenset({('byte', a)}))
                return NotImplemented
            if isinstance(base, (list, tuple, str)):
                if -len(base) <= idx < len(base):
                    return base[idx]
                return NotImplemented
            if isinstance(base, dict):
                return base[idx] if idx in base else NotImplemented
            if isinstance(base, Digest):
                return Xor(frozenset({('byte', base, idx)}))
        return NotImplemented

    def _iter_values(self, it):
        """concrete iteration of an evaluated iterable, or None"""
        if isinstance(it, range):
            if len(it) > MAX_ITER:
                return None
            return list(it)
        if isinstance(it, (list, tuple)):
            return list(it)
        if isinstance(it, SymStr):
            return [SymStr((a,), it.kind) for a in it.atoms]
        if isinstance(it, Digest):
            return [Xor(frozenset({('byte', it, i)})) for i in range(DIGEST_BYTES)]
        if isinstance(it, str):
            return list(it)
        return None

    def _comp(self, e, env):
        if len(e.generators) != 1:
            return None
        g = e.generators[0]
        vals = self._iter_values(self.eval(g.iter, env))
        if vals is None:
            return None
        out = []
        for v in vals:
            env2 = dict(env)
            if not self._bind(g.target, v, env2):
                return None
            keep = True
            for c in g.ifs:
                try:
                    if not self.truth(self.eval(c, env2)):
                        keep = False
                except Undecided:
                    return None
            if keep:
                out.append(self.eval(e.elt, env2))
        return out

    def _e_ListComp(self, e, env):
        r = self._comp(e, env)
        return NotImplemented if r is None else r

    _e_GeneratorExp = _e_ListComp

    def _e_JoinedStr(self, e, env):
        out: tuple = ()
        for v in e.values:
            if isinstance(v, ast.Constant):
                out += tuple(v.value)
            elif isinstance(v, ast.FormattedValue) and v.format_spec is None and v.conversion == -1:
                sv = as_symstr(self.eval(v.value, env))
                if sv is None:
                    return NotImplemented
                out += sv.atoms
            else:
                return NotImplemented
        return SymStr(out)

    def _e_Call(self, e, env):
        cn = dotted(e.func) or ''
        f = e.func
        args = [self.eval(a, env) for a in e.args]
        kw = {k.arg: self.eval(k.value, env) for k in e.keywords if k.arg}
        user = self._user_function(e, env)
        if user is not None and not any(isinstance(a, ast.Starred) for a in e.args) and all(k.arg for k in e.keywords):
            got = self._call_user(user[0], user[1], user[2], args, kw)
            if got is not NotImplemented:
                return got
        if cn == 'len' and len(args) == 1:
            v = args[0]
            if isinstance(v, (SymStr, list, tuple, str, bytes)):
                return len(v)
            return NotImplemented
        if cn == 'range' and args and all(isinstance(a, int) and not isinstance(a, bool) for a in args):
            return range(*args)
        if cn in ('list', 'tuple') and len(args) == 1:
            vals = self._iter_values(args[0])
            if vals is not None:
                return vals if cn == 'list' else tuple(vals)
            return NotImplemented
        if cn == 'reversed' and len(args) == 1:
            vals = self._iter_values(args[0])
            if vals is not None:
                return list(reversed(vals))
            return NotImplemented
        if cn in ('zip',) and args:
            cols = [self._iter_values(a) for a in args]
            if all(c is not None for c in cols):
                return [tuple(t) for t in zip(*cols)]
            return NotImplemented
        if cn == 'enumerate' and len(args) == 1:
            vals = self._iter_values(args[0])
            if vals is not None:
                return list(enumerate(vals))
            return NotImplemented
        if cn in ('set', 'frozenset') and len(args) <= 1 and not kw:
            if not args:
                return set()
            if isinstance(args[0], (set, frozenset, list, tuple)) and all(
                    isinstance(v, (str, int, bytes)) for v in args[0]):
                return set(args[0])
            return NotImplemented
        if cn == 'bytearray' and len(args) == 1:
            v = args[0]
            if isinstance(v, int) and not isinstance(v, bool):
                return ByteArray(Xor(frozenset()) for _ in range(v))
            if isinstance(v, (Digest, SymStr)):
                return v
            if isinstance(v, ByteArray):
                return ByteArray(v)
            return NotImplemented
        if cn == 'bytes' and len(args) == 1 and isinstance(args[0], (Digest, SymStr, ByteArray)):
            return args[0]
        if cn == 'str' and args and isinstance(args[0], SymStr):
            return SymStr(args[0].atoms, 'str')
        if cn in ('binascii.b2a_hex', 'binascii.hexlify') and len(args) == 1 and isinstance(args[0], SymStr) \
                and args[0].kind == 'bytes':
            # every byte becomes its two hex digits
            return SymStr(tuple(('hex', a, h) for a in args[0].atoms for h in (0, 1)), 'bytes')
        if cn in ('binascii.a2b_hex', 'binascii.unhexlify', 'bytes.fromhex') and len(args) == 1 \
                and isinstance(args[0], SymStr):
            at = args[0].atoms
            if len(at) % 2 == 0 and all(isinstance(a, tuple) and a[0] == 'hex' for a in at) \
                    and all(at[i][1] == at[i + 1][1] and at[i][2] == 0 and at[i + 1][2] == 1
                            for i in range(0, len(at), 2)):
                return SymStr(tuple(at[i][1] for i in range(0, len(at), 2)), 'bytes')
            return SymStr(tuple(('unhex', at[i], at[i + 1]) for i in range(0, len(at) - 1, 2)), 'bytes')
        if cn in self.hash_ctors or cn.endswith(tuple('.' + h for h in self.hash_ctors)):
            h = Hash()
            h.inputs.extend(args)
            return h
        if cn == 'struct.unpack' and len(args) == 2 and isinstance(args[0], str) and isinstance(args[1], bytes):
            import struct as _struct
            try:
                return tuple(_struct.unpack(args[0], args[1]))
            except _struct.error:
                return NotImplemented
        if isinstance(f, ast.Attribute):
            recv = self.eval(f.value, env)
            a = f.attr
            if isinstance(recv, Model):
                return recv.call(a, args, kw)
            if isinstance(recv, dict) and a == 'update':
                srcs = [x for x in args] + ([kw] if kw else [])
                if all(isinstance(x, dict) for x in srcs) and not any(k.arg is None for k in e.keywords):
                    for x in srcs:
                        recv.update(x)
                else:
                    recv['?unknown'] = True
                return None
            if isinstance(recv, dict) and a == 'get' and 1 <= len(args) <= 2:
                k = args[0]
                if isinstance(k, (int, str, bytes, bool)):
                    return recv.get(k, args[1] if len(args) == 2 else None)
                return NotImplemented
            if a in ('rstrip', 'lstrip', 'strip') and isinstance(recv, SymStr) and len(args) == 1 \
                    and isinstance(args[0], str):
                at = list(recv.atoms)
                # decided only while the end characters are literals
                if a in ('rstrip', 'strip'):
                    while at and isinstance(at[-1], str) and at[-1] in args[0]:
                        at.pop()
                    if at and not isinstance(at[-1], str):
                        return NotImplemented
                if a in ('lstrip', 'strip'):
                    while at and isinstance(at[0], str) and at[0] in args[0]:
                        at.pop(0)
                    if at and not isinstance(at[0], str):
                        return NotImplemented
                return SymStr(tuple(at), recv.kind)
            if a == 'join' and len(args) == 1:
                sep = as_symstr(recv)
                vals = self._iter_values(args[0])
                if sep is not None and vals is not None:
                    out: tuple = ()
                    for i, v in enumerate(vals):
                        sv = as_symstr(v)
                        if sv is None:
                            return NotImplemented
                        if i:
                            out += sep.atoms
                        out += sv.atoms
                    kind = next((as_symstr(v).kind for v in vals if isinstance(v, SymStr)), sep.kind)
                    return SymStr(out, kind)
                return NotImplemented
            if a == 'replace' and len(args) == 2 and isinstance(recv, SymStr) \
                    and isinstance(args[0], str) and len(args[0]) == 1 and isinstance(args[1], str):
                out = ()
                for x in recv.atoms:
                    out += tuple(args[1]) if x == args[0] else (x,)
                return SymStr(out, recv.kind)
            if a in ('lower', 'upper', 'strip') and isinstance(recv, SymStr) and not args \
                    and all(isinstance(x, tuple) for x in recv.atoms):
                return NotImplemented
            if isinstance(recv, Hash):
                if a == 'copy' and not args:
                    return Hash(recv.inputs)
                if a in ('digest',) and not args:
                    return Digest(tuple(_freeze(x) for x in recv.inputs))
                if a == 'update' and len(args) == 1:
                    recv.inputs.append(args[0])
                    return None
            if isinstance(recv, set):
                if a in ('union', 'update') and all(isinstance(x, (set, frozenset, list, tuple)) for x in args):
                    if a == 'union':
                        out_ = set(recv)
                        for x in args:
                            out_ |= set(x)
                        return out_
                    for x in args:
                        recv.update(x)
                    return None
                if a in ('add', 'discard') and len(args) == 1 and isinstance(args[0], (str, int, bytes)):
                    getattr(recv, a)(args[0])
                    return None
                if a in ('union', 'update', 'add', 'discard', 'remove', 'clear', 'difference_update',
                         'intersection_update', 'pop'):
                    recv.add(UNKNOWN_MEMBER)        # contents no longer known exactly
                    return None
            if isinstance(recv, list):
                if a == 'reverse' and not args:
                    recv.reverse()
                    return None
                if a == 'append' and len(args) == 1:
                    recv.append(args[0])
                    return None
                if a == 'extend' and len(args) == 1:
                    vals = self._iter_values(args[0])
                    if vals is None:
                        return NotImplemented
                    recv.extend(vals)
                    return None
                if a == 'insert' and len(args) == 2 and isinstance(args[0], int):
                    recv.insert(args[0], args[1])
                    return None
                if a == 'pop' and len(args) <= 1 and all(isinstance(x, int) for x in args) and recv:
                    try:
                        return recv.pop(*args)
                    except IndexError:
                        return NotImplemented
        return NotImplemented

    def _user_function(self, e: ast.Call, env: dict):
        """(function node, environment to run it in, number of leading parameters bound implicitly) for a call of
        a closure of the function under evaluation or of a method of its class, else None"""
        f = e.func
        if isinstance(f, ast.Name):
            v = env.get(f.id)
            if isinstance(v, Closure):
                return v.node, v.env, 0
            return None
        if isinstance(f, ast.Attribute) and isinstance(f.value, ast.Name) and f.attr in self.methods \
                and f.value.id in {'self', 'cls', 'clz', 'klass'} | set(self.class_names):
            m = self.methods[f.attr]
            static = any(norm(d) == 'staticmethod' for d in m.decorator_list)
            return m, None, 0 if static else 1
        return None

    class_names: tuple = ()

    def _call_user(self, node: ast.FunctionDef, closure_env, skip: int, args: list, kw: dict):
        if self.depth >= 4:
            return NotImplemented
        a = node.args
        if a.kwarg or a.posonlyargs:
            return NotImplemented
        params = [x.arg for x in a.args][skip:]
        extra: list = []
        if len(args) > len(params):
            if a.vararg is None:
                return NotImplemented
            args, extra = args[:len(params)], args[len(params):]
        env2 = dict(closure_env) if closure_env is not None else {}
        if skip:
            env2[a.args[0].arg] = Opaque(a.args[0].arg)
        bound = dict(zip(params, args))
        for k, v in kw.items():
            if k not in params and k not in [x.arg for x in a.kwonlyargs] or k in bound:
                return NotImplemented
            bound[k] = v
        defaults = dict(zip(params[len(params) - len(a.defaults):] if a.defaults else [], a.defaults))
        for k, d in zip(a.kwonlyargs, a.kw_defaults):
            if d is not None:
                defaults[k.arg] = d
        for name in params + [x.arg for x in a.kwonlyargs]:
            if name not in bound:
                if name not in defaults:
                    return NotImplemented
                bound[name] = self.eval(defaults[name], env2)
        env2.update(bound)
        if a.vararg is not None:
            env2[a.vararg.arg] = tuple(extra)
        self.depth += 1
        try:
            paths = [q for q in self.run(node, env2) if q.done == 'return']
        finally:
            self.depth -= 1
        if len(paths) != 1:
            return NotImplemented
        return paths[0].result

    def truth(self, v) -> bool:
        if isinstance(v, (Opaque, Xor, Digest, Hash, Term)):
            raise Undecided
        if isinstance(v, SymStr):
            return len(v) > 0
        return bool(v)

    # ---- statements ---------------------------------------------------------------
    def _bind(self, t: ast.AST, v, env: dict) -> bool:
        if isinstance(t, ast.Name):
            env[t.id] = v
            return True
        if isinstance(t, (ast.Tuple, ast.List)):
            vals = self._iter_values(v) if not isinstance(v, tuple) else list(v)
            if vals is None or any(isinstance(x, ast.Starred) for x in t.elts) or len(vals) != len(t.elts):
                for x in ast.walk(t):
                    if isinstance(x, ast.Name):
                        env[x.id] = Opaque(f'?{x.id}')
                return vals is None
            return all(self._bind(x, y, env) for x, y in zip(t.elts, vals))
        if isinstance(t, ast.Subscript):
            base = self.eval(t.value, env)
            idx = self.eval(t.slice, env) if not isinstance(t.slice, ast.Slice) else None
            if isinstance(base, list) and isinstance(idx, int) and -len(base) <= idx < len(base):
                base[idx] = v
                return True
            if isinstance(base, dict) and isinstance(idx, (str, int, bytes)) and not isinstance(idx, bool):
                base[idx] = v
                return True
            if isinstance(t.value, ast.Name):
                env[t.value.id] = Opaque(f'?{t.value.id}')
            return True
        if isinstance(t, ast.Attribute) and isinstance(t.value, ast.Name) and t.value.id in env \
                and t.value.id not in ('self', 'cls', 'clz'):
            # a field of a local object (what an inlined constructor leaves: signer.sig = hmac.new(..)) is a local
            # of its own
            env[f'{t.value.id}.{t.attr}'] = v
            return True
        return True      # other attribute stores do not matter to local terms

    def _havoc(self, stmts, env: dict) -> None:
        for st in stmts:
            for n in ast.walk(st):
                if isinstance(n, ast.Name) and isinstance(n.ctx, ast.Store):
                    env[n.id] = Opaque(f'?{n.id}')
                elif isinstance(n, ast.Subscript) and isinstance(n.ctx, ast.Store) and isinstance(n.value, ast.Name):
                    env[n.value.id] = Opaque(f'?{n.value.id}')
                elif isinstance(n, ast.Call) and isinstance(n.func, ast.Attribute) \
                        and isinstance(n.func.value, ast.Name) and n.func.value.id in env \
                        and isinstance(env[n.func.value.id], (list, Hash, dict, set)):
                    env[n.func.value.id] = Opaque(f'?{n.func.value.id}')

    def run(self, fn: ast.FunctionDef, env: dict) -> list[Path]:
        paths = self._block(fn.body, [Path(env=env)])
        for p in paths:
            if not p.done:
                p.done = 'return'
                p.result = None
        return paths

    def _fork(self, p: Path) -> Path:
        self.forks += 1
        if self.forks > MAX_PATHS:
            raise AnalysisError('term evaluation: too many undecidable branches')
        return copy.deepcopy(p)

    def _block(self, stmts: list[ast.stmt], paths: list[Path]) -> list[Path]:
        for st in stmts:
            nxt: list[Path] = []
            for p in paths:
                if p.done:
                    nxt.append(p)
                else:
                    nxt.extend(self._stmt(st, p))
            paths = nxt
        return paths

    def _stmt(self, st: ast.stmt, p: Path) -> list[Path]:
        env = p.env
        if isinstance(st, ast.Assign):
            v = self.eval(st.value, env)
            for t in st.targets:
                self._bind(t, v, env)
            return [p]
        if isinstance(st, ast.AnnAssign):
            if st.value is not None:
                self._bind(st.target, self.eval(st.value, env), env)
            return [p]
        if isinstance(st, ast.AugAssign):
            load = copy.copy(st.target)
            load = ast.parse(ast.unparse(st.target), mode='eval').body
            v = self.eval(ast.BinOp(left=load, op=st.op, right=st.value), env)
            self._bind(st.target, v, env)
            return [p]
        if isinstance(st, ast.Expr):
            self.eval(st.value, env)
            return [p]
        if isinstance(st, ast.Return):
            p.result = self.eval(st.value, env) if st.value is not None else None
            p.done = 'return'
            return [p]
        if isinstance(st, ast.Raise):
            p.done = 'raise'
            return [p]
        if isinstance(st, ast.Assert):
            try:
                if not self.truth(self.eval(st.test, env)):
                    p.done = 'raise'
            except Undecided:
                pass
            return [p]
        if isinstance(st, ast.If):
            try:
                t = self.truth(self.eval(st.test, env))
            except Undecided:
                q = self._fork(p)
                p.notes.append(f'assume {norm(st.test)}')
                q.notes.append(f'assume not ({norm(st.test)})')
                try:
                    shown = repr(_freeze(self.eval(st.test, env)))
                except Exception:
                    shown = '?'
                p.notes.append(f'value+ {shown}')       # the same assumption in terms of what the test evaluates to
                q.notes.append(f'value- {shown}')
                return self._block(st.body, [p]) + self._block(st.orelse, [q])
            return self._block(st.body if t else st.orelse, [p])
        if isinstance(st, ast.For):
            vals = self._iter_values(self.eval(st.iter, env))
            if vals is None or len(vals) > MAX_ITER:
                self._havoc([st], env)
                return [p]
            paths = [p]
            for v in vals:
                for q in paths:
                    if not q.done:
                        self._bind(st.target, v, q.env)
                paths = self._block(st.body, paths)
                if any(isinstance(n, (ast.Break, ast.Continue)) for n in ast.walk(st)):
                    for q in paths:
                        self._havoc([st], q.env)
                    return paths
            return paths
        if isinstance(st, ast.While):
            # unrolled while every test is decided by the values known on this path (constant propagation);
            # a loop with break / continue / else, or one whose body forks, is not followed
            simple = not st.orelse and not any(isinstance(n, (ast.Break, ast.Continue, ast.Return)) for n in ast.walk(st))
            if not simple:
                self._havoc([st], env)
                return [p]
            for _ in range(MAX_ITER):
                try:
                    t = self.truth(self.eval(st.test, env))
                except Undecided:
                    self._havoc([st], env)
                    return [p]
                if not t:
                    return [p]
                forks = self.forks
                out = self._block(st.body, [p])
                if len(out) != 1 or self.forks != forks:
                    for q in out:
                        self._havoc([st], q.env)
                    return out
                if p.done:
                    return [p]
            self._havoc([st], env)
            return [p]
        if isinstance(st, (ast.With, ast.AsyncWith)):
            for i in st.items:
                if i.optional_vars is not None:
                    self._bind(i.optional_vars, self.eval(i.context_expr, env), env)
            return self._block(st.body, [p])
        if isinstance(st, ast.Try):
            out = self._block(st.body, [p])
            return self._block(st.finalbody, out) if st.finalbody else out
        if isinstance(st, ast.FunctionDef):
            env[st.name] = Closure(st, env)
            return [p]
        if isinstance(st, (ast.Pass, ast.Import, ast.ImportFrom, ast.Global, ast.Nonlocal, ast.ClassDef)):
            return [p]
        self._havoc([st], env)
        return [p]


def _parses(t: str) -> bool:
    try:
        ast.parse(t, mode='eval')
        return True
    except SyntaxError:
        return False


def _freeze(v):
    if isinstance(v, list):
        return tuple(_freeze(x) for x in v)
    if isinstance(v, dict):
        return tuple(sorted((str(k), _freeze(x)) for k, x in v.items()))
    if isinstance(v, (set, frozenset)):
        return frozenset(v)
    if isinstance(v, Hash):
        return ('hash', tuple(_freeze(x) for x in v.inputs))
    return v


def class_consts(cls: ast.ClassDef) -> dict[str, object]:
    """class-level names bound once to a literal (numbers, strings, tuples / lists / dicts of literals)"""
    out: dict[str, object] = {}
    seen: dict[str, int] = {}
    for st in cls.body:
        tgt = val = None
        if isinstance(st, ast.Assign) and len(st.targets) == 1 and isinstance(st.targets[0], ast.Name):
            tgt, val = st.targets[0].id, st.value
        elif isinstance(st, ast.AnnAssign) and isinstance(st.target, ast.Name) and st.value is not None:
            tgt, val = st.target.id, st.value
        if tgt is None:
            continue
        seen[tgt] = seen.get(tgt, 0) + 1
        try:
            v = ast.literal_eval(val)
        except (ValueError, SyntaxError, TypeError):
            out.pop(tgt, None)
            out.pop(f'{cls.name}.{tgt}', None)
            continue
        out[tgt] = v
        out[f'{cls.name}.{tgt}'] = v
    return {k: v for k, v in out.items() if seen.get(k.rsplit('.', 1)[-1]) == 1}


def module_consts(tree: ast.Module) -> dict[str, object]:
    """module-level names bound once to a literal (numbers, strings, tuples, dicts of literals)"""
    out: dict[str, object] = {}
    seen: dict[str, int] = {}
    for st in tree.body:
        tgt = val = None
        if isinstance(st, ast.Assign) and len(st.targets) == 1 and isinstance(st.targets[0], ast.Name):
            tgt, val = st.targets[0].id, st.value
        elif isinstance(st, ast.AnnAssign) and isinstance(st.target, ast.Name) and st.value is not None:
            tgt, val = st.target.id, st.value
        if tgt is None:
            continue
        seen[tgt] = seen.get(tgt, 0) + 1
        try:
            out[tgt] = ast.literal_eval(val)
        except (ValueError, SyntaxError, TypeError):
            out.pop(tgt, None)
    return {k: v for k, v in out.items() if seen.get(k) == 1}

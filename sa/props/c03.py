"""C03 - rewritten media segments keep payload and offsets (structural protocol).

R03.1  layout agreement (E4) for the boxes the segment handler re-encodes.
R03.2  offset-bearing fields (trun.data_offset, saio.offsets, tfhd.base_data_offset)
       are recomputed from *final* positions after encode and rewritten in place,
       the stream position being restored.
R03.3  the `saio` bug flag is the only way to skip the saio rewrite.
R03.4  between atom.encode(dest) and dest.getvalue() the only writer to dest is
       the video-corruption hook, under its option guard; nothing on the handler
       path assigns to mdat/UnknownBox data.
R03.5  every edit that moves the moof (emsg insertion, tfdt insertion, PIFF
       insertion) reaches the reset of tfhd.base_data_offset / the forcing of
       trun.data_offset / the saio reset before the tree is encoded.
R03.6  = R04.3 (edit API invalidates, two-pass encode order).
"""
from __future__ import annotations

import ast

from ..core import (AnalysisError, Report, call_name, dotted, find_class, find_func, need,
                    norm, short)
from ..flow import Disjunctive, Domain, Flow, each
from ..index import Index
from .c04 import layout_rule, r04_3

MP4 = 'dashlive/mpeg/mp4.py'
MR = 'dashlive/server/requesthandler/media_requests.py'
SEGMENT_BOXES = {
    'TrackFragmentHeaderBox', 'TrackFragmentDecodeTimeBox', 'TrackFragmentRunBox', 'TrackSample',
    'SampleAuxiliaryInformationSizesBox', 'SampleAuxiliaryInformationOffsetsBox',
    'CencSampleEncryptionBox', 'CencSampleAuxiliaryData', 'CencSubSample',
    'PiffSampleEncryptionBox', 'MovieFragmentHeaderBox', 'EventMessageBox', 'SegmentIndexBox',
    'SegmentReference', 'SegmentTypeBox', 'FileTypeBox',
}


def _deps(fn: ast.FunctionDef, expr: ast.AST, depth: int = 0) -> set[str]:
    """dotted names an expression depends on, through local assignments"""
    out: set[str] = set()
    for n in ast.walk(expr):
        d = dotted(n) if isinstance(n, (ast.Attribute, ast.Name)) else None
        if d:
            out.add(d)
    if depth < 4:
        for n in list(out):
            if '.' in n:
                continue
            for a in ast.walk(fn):
                if isinstance(a, (ast.Assign, ast.AnnAssign)) and a.value is not None:
                    tg = a.targets[0] if isinstance(a, ast.Assign) else a.target
                    if isinstance(tg, ast.Name) and tg.id == n:
                        out |= _deps(fn, a.value, depth + 1)
    return out


def _rewrite_in_place(rep: Report, rid: str, construct: str, fn: ast.FunctionDef,
                      rewriters: tuple[str, ...]) -> None:
    """cur = dest.tell(); dest.seek(<start>); <rewrite>(dest); dest.seek(cur)"""
    tells = [n for n in ast.walk(fn) if isinstance(n, ast.Assign) and isinstance(n.value, ast.Call)
             and call_name(n.value) == 'dest.tell' and isinstance(n.targets[0], ast.Name)]
    rewrites = [n for n in ast.walk(fn) if isinstance(n, ast.Call) and call_name(n) in rewriters]
    if not rewrites:
        rep.fail(rid, construct, 'rewrite', 'no in-place rewrite of the field found', fn)
        return
    for rw in rewrites:
        seek_before = [n for n in ast.walk(fn) if isinstance(n, ast.Call) and call_name(n) == 'dest.seek'
                       and n.lineno < rw.lineno and 'self.position' in norm(n) or
                       (isinstance(n, ast.Call) and call_name(n) == 'dest.seek' and n.lineno < rw.lineno
                        and norm(n.args[0]) == 'pos' and any(t.lineno < n.lineno for t in tells) is False)]
        seek_before = [n for n in ast.walk(fn) if isinstance(n, ast.Call) and call_name(n) == 'dest.seek'
                       and n.lineno < rw.lineno]
        restores = [n for n in ast.walk(fn) if isinstance(n, ast.Call) and call_name(n) == 'dest.seek'
                    and n.lineno > rw.lineno and n.args and isinstance(n.args[0], ast.Name)
                    and any(t.targets[0].id == n.args[0].id and t.lineno < rw.lineno for t in tells)]
        key = f'rewrite via {call_name(rw)} @{short(rw, 30)}'
        if seek_before and restores:
            rep.ok(rid, construct, key, 'seek to the field, rewrite, restore the saved position')
        else:
            rep.fail(rid, construct, key,
                     'the fix-up rewrites bytes without seeking to the field start and restoring '
                     'the stream position afterwards', rw)


def r03_2_3(rep: Report) -> None:
    tree = rep.repo.tree(MP4)
    # --- trun ------------------------------------------------------------
    trun = need(find_class(tree, 'TrackFragmentRunBox'), 'TrackFragmentRunBox')
    pe = need(find_func(trun, 'post_encode'), 'TrackFragmentRunBox.post_encode')
    c = f'{MP4}::TrackFragmentRunBox.post_encode'
    assigns = [n for n in ast.walk(pe) if isinstance(n, ast.Assign)
               and norm(n.targets[0]) == 'self.data_offset']
    if not assigns:
        rep.fail('R03.2', c, 'data_offset recomputed', 'post_encode no longer assigns data_offset', pe)
    for a in assigns:
        deps = _deps(pe, a.value)
        want = {'moof.position', 'moof.size', 'mdat.header_size'}
        base = any(d.endswith('base_data_offset') for d in deps)
        if want <= deps and base:
            rep.ok('R03.2', c, 'data_offset recomputed',
                   'from moof.position + moof.size + mdat.header_size - base_data_offset')
        else:
            rep.fail('R03.2', c, 'data_offset recomputed',
                     f'the recomputed data_offset depends on {sorted(deps)}; it must be derived from '
                     'the final moof.position, moof.size, mdat.header_size and base_data_offset', a)
    # the comparison that triggers the rewrite uses the same quantities
    tests = [n for n in ast.walk(pe) if isinstance(n, ast.If)
             and 'mdat_sample_start' in norm(n.test) and 'first_sample_pos' in norm(n.test)]
    if tests and isinstance(tests[0].test, ast.Compare) and isinstance(tests[0].test.ops[0], ast.NotEq):
        rep.ok('R03.2', c, 'rewrite when the offset differs')
    else:
        rep.fail('R03.2', c, 'rewrite when the offset differs',
                 'the stale-offset test `first_sample_pos != mdat_sample_start` is gone', pe)
    _rewrite_in_place(rep, 'R03.2', c, pe, ('self.output_box_fields', 'self.encode_fields'))
    # moof/mdat lookups: a missing mdat returns (nothing to fix) - listed
    # --- saio ------------------------------------------------------------
    saio = need(find_class(tree, 'SampleAuxiliaryInformationOffsetsBox'), 'saio box')
    pe2 = need(find_func(saio, 'post_encode'), 'saio.post_encode')
    c2 = f'{MP4}::SampleAuxiliaryInformationOffsetsBox.post_encode'
    ff = need(find_func(saio, 'find_first_cenc_sample'), 'find_first_cenc_sample')
    deps = _deps(ff, [n for n in ast.walk(ff) if isinstance(n, ast.Return) and n.value is not None
                      and not isinstance(n.value, ast.Constant)][-1].value)
    if {'senc.position', 'senc.samples'} <= {d for d in deps} | {d.rsplit('[', 1)[0] for d in deps} \
            and any('base_data_offset' in d for d in deps):
        rep.ok('R03.2', f'{MP4}::SampleAuxiliaryInformationOffsetsBox.find_first_cenc_sample',
               'offset = senc.position + samples[0].offset - base_data_offset')
    else:
        rep.fail('R03.2', f'{MP4}::SampleAuxiliaryInformationOffsetsBox.find_first_cenc_sample',
                 'offset = senc.position + samples[0].offset - base_data_offset',
                 f'the saio offset depends on {sorted(deps)}', ff)
    assigns = [n for n in ast.walk(pe2) if isinstance(n, ast.Assign)
               and norm(n.targets[0]) == 'self.offsets']
    if assigns and all(norm(a.value) == '[pos]' for a in assigns) and any(
            isinstance(n, ast.Assign) and norm(n.targets[0]) == 'pos'
            and norm(n.value) == 'self.find_first_cenc_sample()' for n in ast.walk(pe2)):
        rep.ok('R03.2', c2, 'offsets recomputed from the final senc position')
    else:
        rep.fail('R03.2', c2, 'offsets recomputed from the final senc position',
                 'post_encode does not set offsets = [find_first_cenc_sample()]', pe2)
    _rewrite_in_place(rep, 'R03.2', c2, pe2, ('self.encode',))
    # R03.3: after the stale test, the only return is under has_bug('saio')
    stale = [n for n in ast.walk(pe2) if isinstance(n, ast.If) and 'pos != self.offsets[0]' in norm(n.test)]
    if not stale:
        raise AnalysisError('saio.post_encode: stale-offset test not found')
    ok = True
    n_ret = 0
    for r in ast.walk(stale[0]):
        if isinstance(r, ast.Return):
            n_ret += 1
            par = getattr(r, '_parent', None)
            if not (isinstance(par, ast.If) and norm(par.test) == "self.options.has_bug('saio')"):
                ok = False
    if ok and n_ret == 1:
        rep.ok('R03.3', c2, "skip only under has_bug('saio')")
    else:
        rep.fail('R03.3', c2, "skip only under has_bug('saio')",
                 'the saio rewrite can be skipped on a path that does not test the `saio` bug option',
                 stale[0])
    # every early exit of the two fix-up passes is one of the listed "nothing to fix" cases
    allowed = {
        c2: {"self.offsets is not None and len(self.offsets) != 1": 'several offsets: not the single-run form',
             "senc is None": 'no senc box to address',
             "self.options.has_bug('saio')": 'the requested bug-compatibility deviation'},
        c: {"moof is None": 'trun outside a moof (init segment parsing)',
            "mdat is None": 'no mdat to address'},
    }
    for cons, fnode in ((c2, pe2), (c, pe)):
        bad = []
        for r in ast.walk(fnode):
            if isinstance(r, ast.Return):
                par = getattr(r, '_parent', None)
                if not (isinstance(par, ast.If) and r in par.body and norm(par.test) in allowed[cons]):
                    bad.append((r, norm(par.test) if isinstance(par, ast.If) else type(par).__name__))
        if bad:
            for r, why in bad:
                rep.fail('R03.3', cons, 'early exits of the fix-up pass',
                         f'the offset fix-up returns early under `{why[:100]}`, which is not one of the '
                         f'"nothing to fix" cases {sorted(allowed[cons])}: a stale offset is served', r)
        else:
            rep.ok('R03.3', cons, 'early exits of the fix-up pass', '; '.join(allowed[cons]))
    # has_bug reads the bug-compatibility list
    opt = need(find_class(tree, 'Options'), 'mp4.Options')
    hb = need(find_func(opt, 'has_bug'), 'Options.has_bug')
    if 'bug_compatibility' in norm(hb):
        rep.ok('R03.3', f'{MP4}::Options.has_bug', 'reads bug_compatibility')
    else:
        rep.fail('R03.3', f'{MP4}::Options.has_bug', 'reads bug_compatibility',
                 'has_bug no longer consults the bug_compatibility option', hb)
    # --- tfhd -----------------------------------------------------------
    tfhd = need(find_class(tree, 'TrackFragmentHeaderBox'), 'tfhd')
    eb = need(find_func(tfhd, 'encode_box_fields'), 'tfhd.encode_box_fields')
    first = eb.body[0]
    if isinstance(first, ast.If) and norm(first.test) == 'self.base_data_offset is None' \
            and "self.find_atom('moof').position" in norm(first):
        rep.ok('R03.2', f'{MP4}::TrackFragmentHeaderBox.encode_box_fields',
               'base_data_offset None -> moof.position at encode time')
    else:
        rep.fail('R03.2', f'{MP4}::TrackFragmentHeaderBox.encode_box_fields',
                 'base_data_offset None -> moof.position at encode time',
                 'tfhd no longer recomputes a reset base_data_offset from the moof position', eb)


class _SegDom(Domain):
    """facts + constant propagation of the boolean flags moof_modified / traf_modified"""

    def copy(self, s): return set(s)
    def join(self, a, b): return a & b
    def leq(self, a, b): return a == b      # exact path facts: keep every distinct path

    def transfer(self, st, s):
        s = set(s)
        txt = norm(st)
        if isinstance(st, ast.Assign) and len(st.targets) == 1 and isinstance(st.targets[0], ast.Name):
            name = st.targets[0].id
            if name in ('moof_modified', 'traf_modified'):
                before = set(s)
                s -= {f'{name}=T', f'{name}=F'}
                v = st.value
                if isinstance(v, ast.Constant) and v.value is True:
                    s.add(f'{name}=T')
                elif isinstance(v, ast.Constant) and v.value is False:
                    s.add(f'{name}=F')
                elif isinstance(v, ast.BoolOp) and isinstance(v.op, ast.Or):
                    if any(isinstance(x, ast.Name) and f'{x.id}=T' in before for x in v.values):
                        s.add(f'{name}=T')
                elif isinstance(v, ast.Call) and call_name(v) == 'self.update_traf_if_required':
                    s.add('piff-maybe')
        for c in ast.walk(st):
            if isinstance(c, ast.Call):
                cn = call_name(c) or ''
                if cn.endswith('.insert_child') and 'traf' in cn:
                    s.add('traf-edited')
                if cn == 'atom.children.insert' or (cn.endswith('.insert') and 'children' in cn):
                    s.add('moof-moved')
                if cn == 'atom.encode':
                    s.add('encoded')
        if 'tfhd.base_data_offset = None' in txt:
            s.add('base-reset')
        if 'data_offset_present' in txt and 'flags |=' in txt:
            s.add('trun-forced')
        if 'saio.offsets = None' in txt:
            s.add('saio-reset')
        return s

    def assume(self, test, s, truth):
        t = norm(test)
        for name in ('moof_modified', 'traf_modified'):
            if t == name:
                if truth and f'{name}=F' in s:
                    return None
                if not truth and f'{name}=T' in s:
                    return None
        if t == 'tfhd is not None' and not truth:
            s = set(s) | {'base-reset'}
        if t == 'saio is not None and senc is not None' and not truth:
            s = set(s) | {'saio-reset'}
        return s


def r03_4_5(rep: Report) -> None:
    tree = rep.repo.tree(MR)
    cls = need(find_class(tree, 'MediaRequestBase'), 'MediaRequestBase')
    fn = need(find_func(cls, 'generate_media_segment'), 'generate_media_segment')
    c = f'{MR}::MediaRequestBase.generate_media_segment'
    enc_calls = [n for n in ast.walk(fn) if isinstance(n, ast.Call) and call_name(n) == 'atom.encode']
    if len(enc_calls) != 1:
        raise AnalysisError('generate_media_segment: expected exactly one atom.encode(dest)')
    enc_line = enc_calls[0].lineno
    getv = [n for n in ast.walk(fn) if isinstance(n, ast.Call) and call_name(n) == 'dest.getvalue']
    if len(getv) != 1:
        raise AnalysisError('generate_media_segment: expected exactly one dest.getvalue()')
    gv_line = getv[0].lineno
    # R03.4
    writers = []
    for n in ast.walk(fn):
        if isinstance(n, ast.Call) and enc_line < n.lineno < gv_line:
            if any(norm(a) == 'dest' for a in n.args) or (call_name(n) or '').startswith('dest.'):
                writers.append(n)
    for w in writers:
        key = short(w, 60)
        if call_name(w) == 'self.apply_video_corruption':
            par = getattr(w, '_parent', None)
            while par is not None and not isinstance(par, ast.If):
                par = getattr(par, '_parent', None)
            if par is not None and "content_type == 'video'" in norm(par.test) \
                    and 'options.videoCorruption' in norm(par.test):
                rep.ok('R03.4', c, key, 'only under the video-corruption option')
            else:
                rep.fail('R03.4', c, key, 'payload corruption hook is not guarded by its option', w)
        else:
            rep.fail('R03.4', c, key,
                     'the encoded segment is written to again between encode() and getvalue(): '
                     'payload or offsets can change after the fix-ups ran', w)
    if not writers:
        rep.ok('R03.4', c, 'no writers after encode')
    # nothing assigns box payload data on the handler path
    for n in ast.walk(fn):
        if isinstance(n, (ast.Assign, ast.AugAssign)):
            for t in (n.targets if isinstance(n, ast.Assign) else [n.target]):
                tn = norm(t)
                if tn.endswith('.data') or '.mdat' in tn or tn.endswith('._encoded'):
                    rep.fail('R03.4', c, f'assigns {tn}',
                             f'`{short(n, 60)}` changes stored payload bytes', n)
    rep.ok('R03.4', c, 'payload untouched', 'no assignment to mdat / .data / ._encoded')
    # R03.5 path rule
    results = []

    def on_stmt(st, s):
        if isinstance(st, (ast.If, ast.While, ast.For, ast.With, ast.Try)):
            return
        for call in ast.walk(st):
            if isinstance(call, ast.Call) and call_name(call) == 'atom.encode':
                results.append(set(s))
    Flow(Disjunctive(_SegDom(), cap=256), on_stmt=each(on_stmt)).run(fn, [set()])
    if not results:
        raise AnalysisError('generate_media_segment: atom.encode not reached by the path engine')
    moved = [s for s in results if 'moof-moved' in s or 'traf-edited' in s]
    if not moved:
        raise AnalysisError('generate_media_segment: no path with an emsg/tfdt insertion found')
    if all('base-reset' in s for s in moved):
        rep.ok('R03.5', c, 'moof edit -> tfhd.base_data_offset reset',
               f'{len(moved)} path(s) with an insertion all reach the reset before encode')
    else:
        rep.fail('R03.5', c, 'moof edit -> tfhd.base_data_offset reset',
                 'a path inserts an emsg/tfdt box (the moof moves or grows) and reaches '
                 'atom.encode() without resetting tfhd.base_data_offset: trun/saio offsets are '
                 'computed against the stored moof position', fn)
    tr = [s for s in results if 'traf-edited' in s]
    if tr and all('trun-forced' in s for s in tr):
        rep.ok('R03.5', c, 'traf edit -> trun data_offset forced')
    else:
        rep.fail('R03.5', c, 'traf edit -> trun data_offset forced',
                 'a child is inserted into traf without forcing the trun data_offset field', fn)
    # emsg insertion index derives from the moof index
    ins = [n for n in ast.walk(fn) if isinstance(n, ast.Call) and call_name(n) == 'atom.children.insert']
    if ins and all('moof_idx' in norm(i.args[0]) for i in ins) and any(
            isinstance(a, ast.Assign) and norm(a.targets[0]) == 'moof_idx'
            and norm(a.value) == "atom.index('moof')" for a in ast.walk(fn)):
        rep.ok('R03.5', c, 'emsg inserted immediately before moof')
    else:
        rep.fail('R03.5', c, 'emsg inserted immediately before moof',
                 'emsg boxes are not inserted at the index of the moof box', fn)
    # PIFF insertion in playready.update_traf_if_required
    pr = rep.repo.tree('dashlive/drm/playready.py')
    pcls = need(find_class(pr, 'PlayReady'), 'PlayReady')
    ut = need(find_func(pcls, 'update_traf_if_required'), 'update_traf_if_required')
    c3 = 'dashlive/drm/playready.py::PlayReady.update_traf_if_required'
    t = norm(ut)
    if "pos = traf.index('saiz')" in t and 'traf.insert_child(pos, piff)' in t:
        rep.ok('R03.5', c3, 'PIFF box inserted before saiz')
    else:
        rep.fail('R03.5', c3, 'PIFF box inserted before saiz', 'PIFF insertion idiom changed', ut)
    ins_line = next((n.lineno for n in ast.walk(ut) if isinstance(n, ast.Call)
                     and call_name(n) == 'traf.insert_child'), 0)
    rets_true = [n for n in ast.walk(ut) if isinstance(n, ast.Return)
                 and isinstance(n.value, ast.Constant) and n.value.value is True]
    inval = any(isinstance(n, ast.Call) and call_name(n) == 'traf.trun._invalidate' and n.lineno > ins_line
                for n in ast.walk(ut))
    if rets_true and all(r.lineno > ins_line for r in rets_true) and inval:
        rep.ok('R03.5', c3, 'reports the modification and invalidates trun')
    else:
        rep.fail('R03.5', c3, 'reports the modification and invalidates trun',
                 'after inserting the PIFF box the function must invalidate trun and return True '
                 '(the handler resets tfhd/saio only when told the traf changed)', ut)
    # fragments are opened read-write (the edit API refuses read-only trees)
    lf = need(find_func(cls, 'load_fragment'), 'load_fragment')
    if "mode='rw'" in norm(lf):
        rep.ok('R03.5', f'{MR}::MediaRequestBase.load_fragment', "mp4.Options(mode='rw')")
    else:
        rep.fail('R03.5', f'{MR}::MediaRequestBase.load_fragment', "mp4.Options(mode='rw')",
                 'fragments are not loaded read-write: every edit raises PermissionError', lf)


def analyse(rep: Report) -> None:
    rep.explanation = (
        'Decides the structural protocol that makes offsets right after edits: reader/writer '
        'layout agreement of the boxes re-encoded in a segment; data-dependence of the recomputed '
        'trun/saio/tfhd offsets on final positions and in-place rewrite discipline; the saio bug '
        'flag as the only skip; a who-may-write rule between encode() and getvalue(); a path rule '
        '(flag constant propagation over generate_media_segment) that every box insertion reaches '
        'the resets before encode. Byte identity of mdat and the numerical offsets are not decided.')
    rep.rule('R03.1', 'layouts of the boxes rewritten in a segment agree', floor=12)
    rep.rule('R03.2', 'offset fields are recomputed from final positions and rewritten in place', floor=8)
    rep.rule('R03.3', 'saio rewrite skipped only under the saio bug option', floor=4)
    rep.rule('R03.4', 'nothing writes to the encoded segment except the guarded corruption hook', floor=2)
    rep.rule('R03.5', 'box insertions reach the offset resets before encode', floor=6)
    rep.rule('R04.3', 'edit API invalidates cached encodings; two-pass encode order (shared with C04)',
             floor=10)
    idx = Index(rep.repo, 'dashlive')
    layout_rule(rep, idx, 'R03.1', [MP4], 12, only=SEGMENT_BOXES)
    r03_2_3(rep)
    r03_4_5(rep)
    r04_3(rep)

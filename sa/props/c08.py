"""C08 - live timing parameters are coherent (difference-bound abstract interpretation).

The clauses of C08 that are *difference constraints between instants and durations* are
decided by abstract interpretation of DashTiming.__init__ + calculate_live_params in
the time algebra (sa/timealg.py: zone domain + calendar floors + floor multiples),
path by path (trace partitioning; the function is loop-free):

R08.1  availabilityStartTime <= now on every path.
R08.2  availabilityStartTime <= publishTime <= now, publishTime on a whole second;
       without a minimumUpdatePeriod, now - publishTime < 1 s.
R08.3  0 <= timeShiftBufferDepth <= elapsedTime, elapsedTime == now - availabilityStartTime.
R08.4  firstAvailableTime == elapsedTime - timeShiftBufferDepth and >= 0.
R08.5  symbolic start values (epoch, today, month, year, now): now - availabilityStartTime >= 60 s.
R08.6  with a minimumUpdatePeriod p: p > 0 where it divides, and publishTime is
       availabilityStartTime + int(elapsed // p) * p (a whole number of periods).
R08.7  every divisor is non-zero on every path.
R08.8  the branch table: each symbolic start value has its own branch; everything else is
       taken as an explicit instant.

Not decided here (two-run or three-variable clauses): publishTime never decreases as now
advances; lag < p + 1 s; "one and the same instant within a UTC day".

Assumptions (the quantification of the property): the wall clock is later than
2020-01-01T00:00:00Z; an explicit start is <= now; depth / mup / leeway are integers or
None; the reference segment duration and timescale are integers >= 1.
"""
from __future__ import annotations

import ast

from ..absint import BELOW_ONE, INF, ZERO, Zone
from ..core import AnalysisError, Report, call_name, dotted, find_class, find_func, need, norm
from ..flow import Disjunctive, Flow
from ..timealg import TimeDomain, clock_axioms

TM = 'dashlive/mpeg/dash/timing.py'
MO = 'dashlive/server/options/manifest_options.py'

AST_ = 'self.availabilityStartTime'
PT = 'self.publishTime'
EL = 'self.elapsedTime'
TS = 'self.timeShiftBufferDepth'
FAT = 'self.firstAvailableTime'
MUP = 'self.minimumUpdatePeriod'
OPT_START = 'options.availabilityStartTime'


def _label(s: Zone) -> str:
    for f in sorted(s.facts):
        if f.startswith(f'str:{OPT_START}='):
            return f.split('=', 1)[1]
    return 'explicit'


def _sublabel(s: Zone) -> str:
    """which sub-path of a start branch (back-off taken or not, depth sign)"""
    out = []
    lo, hi = s.bound('options.timeShiftBufferDepth')
    if f'none:options.timeShiftBufferDepth' in s.facts:
        out.append('depth=None')
    elif hi <= -1:
        out.append('depth<0')
    elif lo >= 1:
        out.append('depth>0')
    elif lo == hi == 0:
        out.append('depth=0')
    if f'none:{MUP}' in s.facts:
        out.append('mup=off')
    else:
        out.append('mup=on')
    return ','.join(out)


def _class_consts(cls: ast.ClassDef) -> dict[str, float]:
    out = {}
    for st in cls.body:
        tgt = val = None
        if isinstance(st, ast.AnnAssign) and st.value is not None:
            tgt, val = st.target, st.value
        elif isinstance(st, ast.Assign) and len(st.targets) == 1:
            tgt, val = st.targets[0], st.value
        if isinstance(tgt, ast.Name) and isinstance(val, ast.Constant) \
                and isinstance(val.value, (int, float)) and not isinstance(val.value, bool):
            out[tgt.id] = val.value
    return out


def analyse(rep: Report) -> None:
    rep.rule('R08.1', 'availabilityStartTime <= now on every path', floor=6)
    rep.rule('R08.2', 'availabilityStartTime <= publishTime <= now, publishTime on a whole second', floor=6)
    rep.rule('R08.3', '0 <= timeShiftBufferDepth <= elapsedTime == now - availabilityStartTime', floor=6)
    rep.rule('R08.4', 'firstAvailableTime == elapsedTime - timeShiftBufferDepth >= 0', floor=6)
    rep.rule('R08.5', 'symbolic start values give a stream at least 60 s old', floor=5)
    rep.rule('R08.6', 'publishTime is availabilityStartTime plus a whole number of update periods', floor=6)
    rep.rule('R08.7', 'divisors are non-zero on every path', floor=2)
    rep.rule('R08.8', 'one branch per symbolic start value, parser and branches agree', floor=5)
    rep.rule('R08.9', 'the publishTime grid of a symbolic start is anchored at one instant per calendar unit', floor=3)
    rep.rule('R08.10', 'an explicit start is parsed to the instant it names and written back as that instant (rules of C19)', floor=1)
    rep.axioms.extend([
        'wall clock: now >= 2020-01-01T00:00:00Z',
        'an explicit start instant is <= now (quantification of C08)',
        'options.timeShiftBufferDepth, minimumUpdatePeriod, leeway are integers or None '
        '(DashOption.int_or_none_from_string)',
        'stream_reference.segment_duration and timescale are integers >= 1',
        'calendar: a day has 86400 s, a month at most 31 days, a year at most 366 days; '
        'replace(field=min) never increases an instant',
    ])
    tree = rep.repo.tree(TM)
    cls = need(find_class(tree, 'DashTiming'), f'{TM}::DashTiming')
    init = need(find_func(cls, '__init__'), 'DashTiming.__init__')
    live = need(find_func(cls, 'calculate_live_params'), 'DashTiming.calculate_live_params')
    from ..normalise import propagate_attr_aliases
    init, live = propagate_attr_aliases(init), propagate_attr_aliases(live)
    construct = f'{TM}::DashTiming.calculate_live_params'
    consts = _class_consts(cls)

    # ---- R08.8 branch table vs parser ------------------------------------------
    specials: set[str] = set()
    mo = rep.repo.tree(MO)
    for n in ast.walk(mo):
        if isinstance(n, ast.Assign) and norm(n.targets[0]) == 'SPECIAL_AST_VALUES':
            lit = n.value
            if isinstance(lit, ast.Call) and norm(lit.func) in ('frozenset', 'set', 'tuple', 'list') and lit.args:
                lit = lit.args[0]
            if isinstance(lit, (ast.Set, ast.List, ast.Tuple)):
                specials = {e.value for e in lit.elts if isinstance(e, ast.Constant)}
    if not specials:
        raise AnalysisError('SPECIAL_AST_VALUES not found in manifest_options.py')
    branch_vals = set()
    # names that hold a plain copy of the option (start = options.availabilityStartTime) are the option
    copies = {OPT_START}
    for n in ast.walk(live):
        if isinstance(n, (ast.Assign, ast.AnnAssign)) and getattr(n, 'value', None) is not None \
                and norm(n.value) == OPT_START:
            t = n.targets[0] if isinstance(n, ast.Assign) else n.target
            if isinstance(t, ast.Name):
                copies.add(t.id)
    for n in ast.walk(live):
        if isinstance(n, ast.Compare) and norm(n.left) in copies and isinstance(n.comparators[0], ast.Constant) \
                and isinstance(n.ops[0], ast.Eq):
            branch_vals.add(n.comparators[0].value)
        elif isinstance(n, ast.Compare) and norm(n.left) in copies and isinstance(n.ops[0], ast.In) \
                and isinstance(n.comparators[0], (ast.Tuple, ast.List, ast.Set)):
            # membership only groups values; each still needs a path of its own (checked at the exits)
            pass
    r08_8_pending = (specials, branch_vals)

    # ---- abstract interpretation ---------------------------------------------------
    dom = TimeDomain(clock='now')
    dj = Disjunctive(dom, cap=4096)
    z = Zone()
    clock_axioms(z, 'now')
    for name, val in consts.items():
        v = f'self.{name}'
        z.add(v, ZERO, val)
        z.add(ZERO, v, -val)
        if isinstance(val, int):
            z.ints.add(v)
        z.facts.add(f'some:{v}')
    # module-level constants (ONE_DAY = datetime.timedelta(days=1), numbers)
    for st in tree.body:
        if isinstance(st, ast.Assign) and len(st.targets) == 1 and isinstance(st.targets[0], ast.Name):
            try:
                v = dom.eval(st.value, z)
            except Exception:
                continue
            lo, hi = dom.interval(v, z)
            if lo == hi and abs(lo) != INF and v.base is None:
                name = st.targets[0].id
                z.add(name, ZERO, hi)
                z.add(ZERO, name, -lo)
                if v.isint:
                    z.ints.add(name)
                z.facts.add(f'some:{name}')
    z.add(OPT_START, 'now', 0)                       # explicit start <= now
    for o in ('options.timeShiftBufferDepth', 'options.minimumUpdatePeriod', 'options.leeway'):
        z.ints.add(o)
    for r in ('self.stream_reference.segment_duration', 'self.stream_reference.timescale'):
        z.ints.add(r)
        z.add(ZERO, r, -1)
        z.facts.add(f'some:{r}')
    z.facts.add('str:options.mode=live')
    z.close()

    entry_states: list[Zone] = []
    call_node: list[ast.Call] = []

    def on_init_stmt(st: ast.stmt, states) -> None:
        if isinstance(st, ast.Expr) and isinstance(st.value, ast.Call) \
                and call_name(st.value) == 'self.calculate_live_params':
            call_node.append(st.value)
            entry_states.extend(x.copy() for x in states)

    Flow(dj, on_stmt=on_init_stmt).run(init, [z])
    if not entry_states:
        raise AnalysisError('DashTiming.__init__ no longer calls self.calculate_live_params in live mode')
    params = [a.arg for a in live.args.args][1:]
    args = [norm(a) for a in call_node[0].args]
    if params[:len(args)] != args:
        raise AnalysisError(f'calculate_live_params{tuple(params)} is called with {tuple(args)}: '
                            'parameter renaming is not modelled')

    exits: list[Zone] = []

    def on_exit(kind: str, node, states) -> None:
        if kind == 'raise':
            return
        exits.extend(states)

    dom.obligations.clear()
    Flow(dj, on_exit=on_exit).run(live, entry_states)
    if not exits:
        raise AnalysisError('calculate_live_params has no normal exit')
    rep.extra['paths'] = len(exits)

    symbolic = specials
    seen_labels = set()
    results: dict[tuple[str, str], list[tuple[bool, str, str]]] = {}
    for s in exits:
        s.close()
        lab = _label(s)
        sub = _sublabel(s)
        seen_labels.add(lab)
        where = f'start={lab}'
        path = f'{where} [{sub}]'

        def dfl(a: str, b: str) -> float:
            return s.upper_diff(a, b)

        def verdict(rid: str, key: str, ok: bool, good: str, bad: str) -> None:
            results.setdefault((rid, f'{key} {where}'), []).append((ok, good, f'on the path {path}: {bad}'))

        # R08.1
        verdict('R08.1', 'AST<=now', dfl(AST_, 'now') <= 0, 'availabilityStartTime - now <= 0',
                f'availabilityStartTime <= now is not implied (availabilityStartTime - now <= '
                f'{dfl(AST_, "now"):g})')
        # R08.2
        verdict('R08.2', 'AST<=publishTime', dfl(AST_, PT) <= 0, 'availabilityStartTime - publishTime <= 0',
                'publishTime can precede availabilityStartTime (availabilityStartTime - publishTime <= '
                f'{dfl(AST_, PT):g}): an availabilityStartTime with fractional seconds is later than '
                'the publishTime floored to a whole second')
        verdict('R08.2', 'publishTime<=now', dfl(PT, 'now') <= 0, 'publishTime - now <= 0',
                f'publishTime <= now is not implied (publishTime - now <= {dfl(PT, "now"):g})')
        verdict('R08.2', 'publishTime whole second', PT in s.ints, 'floored with replace(microsecond=0)',
                'publishTime is not known to be on a whole second')
        if f'none:{MUP}' in s.facts:
            verdict('R08.2', 'lag<1s without mup', dfl('now', PT) <= BELOW_ONE, 'now - publishTime < 1',
                    f'without a minimumUpdatePeriod now - publishTime < 1 s is not implied '
                    f'(<= {dfl("now", PT):g})')
        # R08.3
        lo, hi = s.bound(TS)
        verdict('R08.3', 'depth>=0', lo >= 0 and TS in s.ints, f'timeShiftBufferDepth in [{lo:g}, {hi:g}]',
                f'timeShiftBufferDepth can be negative or non-integer (interval [{lo:g}, {hi:g}]): a '
                'negative `depth` option is used as it is')
        d_el = dom.diff_of(s, EL)
        el_exact = d_el is not None and dom.same(s, d_el[0], 'now') and dom.same(s, d_el[1], AST_)
        if not el_exact:
            dlo, dhi = -dfl(AST_, 'now'), dfl('now', AST_)
            elo, ehi = s.bound(EL)
            el_exact = dlo == dhi == elo == ehi and abs(dlo) != INF
        verdict('R08.3', 'elapsed==now-AST', el_exact, 'elapsedTime is now - availabilityStartTime',
                'elapsedTime is not known to equal now - availabilityStartTime at exit')
        verdict('R08.3', 'depth<=elapsed', dfl(TS, EL) <= 0, 'timeShiftBufferDepth - elapsedTime <= 0',
                f'timeShiftBufferDepth <= elapsedTime is not implied (difference <= {dfl(TS, EL):g})')
        # R08.4
        d_fat = dom.diff_of(s, FAT)
        fat_def = d_fat is not None and dom.same(s, d_fat[0], EL) and dom.same(s, d_fat[1], TS)
        flo, _ = s.bound(FAT)
        verdict('R08.4', 'firstAvailableTime', fat_def and flo >= 0,
                'elapsedTime - timedelta(seconds=timeShiftBufferDepth), >= 0',
                ('firstAvailableTime is not elapsedTime - timeShiftBufferDepth at exit' if not fat_def
                 else f'firstAvailableTime can be negative (lower bound {flo:g})'))
        # R08.5
        if lab in symbolic:
            age = -dfl(AST_, 'now')
            verdict('R08.5', 'age>=60s', age >= 60, f'now - availabilityStartTime >= {age:g}',
                    f'the stream can be younger than one minute (now - availabilityStartTime >= {age:g} '
                    'is all that is implied)')
        # R08.6
        if f'none:{MUP}' not in s.facts:
            plo, _ = s.bound(MUP)
            tag = s.aux.get(f'tag:{PT}')
            verdict('R08.6', 'period>0', plo >= 1, f'minimumUpdatePeriod >= {plo:g}',
                    f'minimumUpdatePeriod can be <= 0 where it is used (lower bound {plo:g})')
            numerator = tag[3] if tag and len(tag) > 3 else None
            tag = tuple(tag[:3]) if tag else tag
            if tag and tag[0] == 'base+mult' and tag[2] != MUP and dfl(tag[2], MUP) <= 0 and dfl(MUP, tag[2]) <= 0:
                tag = (tag[0], tag[1], MUP)             # a local alias of the period
            if tag and tag[0] == 'base+mult' and tag[1] != AST_ and dom.same(s, tag[1], AST_):
                tag = (tag[0], AST_, tag[2])            # a local that holds the same instant
            verdict('R08.6', 'publishTime quantised', tag == ('base+mult', AST_, MUP),
                    'availabilityStartTime + int(elapsed // p) * p',
                    'publishTime is not availabilityStartTime plus int(elapsed // p) * p on a whole second '
                    f'(provenance {tag or "unknown"}): flooring a fractional availabilityStartTime breaks the grid')
            # the number of refreshes is counted over the elapsed time the object ends up with: a value taken
            # before elapsedTime / availabilityStartTime were moved counts refreshes of another interval, and
            # publishTime then lags now by more than one period
            mo = [v for k_, v in s.aux.items() if k_.startswith('multof:')
                  and (k_[7:] == MUP or (dfl(k_[7:], MUP) <= 0 and dfl(MUP, k_[7:]) <= 0))]
            if mo:
                numerator = mo[0]
                if numerator.startswith('='):
                    # a constant numerator: the same thing if the final elapsed time is that constant
                    elo_, ehi_ = s.bound(EL)
                    const_ok = elo_ == ehi_ == float(numerator[1:])
                else:
                    const_ok = False
                verdict('R08.6', 'refreshes counted over the final elapsed time',
                        const_ok or (numerator not in ('?', '') and not numerator.startswith('=')
                                     and dom.same(s, numerator, EL)),
                        'int(elapsedTime // p) with the elapsedTime of the exit',
                        f'the refresh count is the floor of `{numerator}` / p, which is not known to be the elapsedTime the '
                        f'object ends with (elapsedTime in [{s.bound(EL)[0]:g}, {s.bound(EL)[1]:g}]): publishTime = '
                        'availabilityStartTime + k*p is not within one period of now')
        else:
            rep.ok('R08.6', construct, f'no period {where}', 'minimumUpdatePeriod disabled: publishTime = floor(now)')
    # R08.9: with a period p, publishTime = AST + k*p is monotone in now while AST stands still.  A
    # symbolic start whose AST takes two values relative to the same calendar floor (the back-off
    # branch taken or not) re-anchors the grid when the branch flips; the new grid continues the old
    # one only if p divides the shift, which nothing constrains.
    anchors: dict[str, set[float]] = {}
    backoffs: dict[str, list[tuple[float, float]]] = {}
    for s in exits:
        s.close()
        lab = _label(s)
        if lab not in ('today', 'month', 'year') or f'none:{MUP}' in s.facts:
            continue
        ghost = f"now@{ {'today': 'day', 'month': 'month', 'year': 'year'}[lab] }"
        up, lo_ = s.upper_diff(AST_, ghost), -s.upper_diff(ghost, AST_)
        if abs(up) != INF and up == lo_:
            anchors.setdefault(lab, set()).add(up)
            if up < 0:
                backoffs.setdefault(lab, []).append((s.upper_diff(PT, ghost), -up))
        else:
            anchors.setdefault(lab, set()).add(float('nan'))
    for lab, offs in sorted(anchors.items()):
        key = f'grid anchor start={lab}'
        vals = sorted(o for o in offs if o == o)
        if len(offs) == 1:
            rep.ok('R08.9', construct, key, f'one anchor: calendar floor {vals[0]:+g} s')
        else:
            rep.fail('R08.9', construct, key,
                     f'availabilityStartTime for start={lab} is the calendar floor shifted by {vals or "?"} seconds '
                     'depending on a back-off branch, and publishTime = availabilityStartTime + k*p: when the branch '
                     'flips the grid is re-anchored by the difference, which p need not divide - publishTime '
                     'moves backward as now advances', live)
    # ... and the back-off itself is taken only while publishTime is within the first <shift> of the calendar
    # unit whose floor is the anchor: a back-off decided by anything else (the distance to another unit's
    # floor) is taken again later in the unit, and availabilityStartTime moves backward when it is
    for lab, rows in sorted(backoffs.items()):
        key = f'back-off start={lab} only at the start of the unit'
        worst = max(w for w, _sh in rows)
        shift = rows[0][1]
        if all(w <= sh for w, sh in rows):
            rep.ok('R08.9', construct, key, f'{len(rows)} path(s): publishTime - floor <= {worst:g} s')
        else:
            rep.fail('R08.9', construct, key,
                     f'availabilityStartTime for start={lab} is moved back by {shift:g} s on a path where publishTime is '
                     f'not known to be within {shift:g} s of the calendar floor it is anchored at (publishTime - floor <= '
                     f'{worst:g}): the back-off is decided by the distance to something else, is taken again later in '
                     'the unit, and availabilityStartTime moves backward as now advances', live)
    for (rid, key), rs in results.items():
        bad = [r for r in rs if not r[0]]
        if bad:
            more = f' (and {len(bad) - 1} more path(s))' if len(bad) > 1 else ''
            rep.fail(rid, construct, key, bad[0][2] + more, live)
        else:
            rep.ok(rid, construct, key, f'{rs[0][1]} on {len(rs)} path(s)')
    # R08.7
    divs: dict[str, list] = {}
    for node, text, ok, path in dom.obligations:
        divs.setdefault(text, []).append((ok, node, path))
    for text, rs in divs.items():
        bad = [r for r in rs if not r[0]]
        if bad:
            rep.fail('R08.7', construct, text,
                     f'{text} is not implied on the path {bad[0][2] or "(entry)"}: ZeroDivisionError', bad[0][1])
        else:
            rep.ok('R08.7', construct, text, f'on {len(rs)} path state(s)')
    # R08.8: a symbolic value is resolved when some path through the function is taken for it alone
    # (an `==` test, or the residue of a membership test) - read off the labels of the exits
    specials_, branch_vals_ = r08_8_pending
    branch_vals_ = set(branch_vals_) | {l for l in seen_labels if l != 'explicit'}
    for v in sorted(specials_ | branch_vals_):
        if v in specials_ and v in branch_vals_:
            rep.ok('R08.8', construct, f'start={v}', 'accepted by the parser and resolved by its own branch')
        elif v in specials_:
            rep.fail('R08.8', construct, f'start={v}',
                     f'the parser accepts the symbolic start `{v}` but calculate_live_params has no '
                     'branch for it: the string is used as availabilityStartTime', live)
        else:
            rep.fail('R08.8', construct, f'start={v}',
                     f'calculate_live_params resolves `{v}`, which the option parser does not accept', live)
    from .c19 import lift_into
    lift_into(rep, 'R08.10', ('R19.2', 'R19.3', 'R19.5', 'R19.7'), 'ISO date-time parser and formatter of the start option')
    missing = (symbolic | {'explicit'}) - seen_labels
    if missing:
        raise AnalysisError(f'no normal exit reached for start values {sorted(missing)}')

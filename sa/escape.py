"""Exception escape analysis (used by C16, C12, C06).

For a function f:  escapes(f) = exception signals that may propagate out of f,
each with its origin (function, statement) and the call chain.  Signals are
explicit `raise`, `assert` (optional), and a small table of builtin conversions
of request text.  A signal is stopped by an enclosing `try` whose handler
covers its type (builtin hierarchy from the interpreter's own `builtins`, repo
exception classes from the index).
"""
from __future__ import annotations

import ast
import builtins
from dataclasses import dataclass

from .core import call_name, dotted, norm, short, ancestors
from .index import CallGraph, ClassInfo, FuncInfo, Index


@dataclass(frozen=True)
class Signal:
    exc: str                 # exception class name (short)
    origin: str              # qualified function where it is raised
    key: str                 # normalised statement text
    kind: str                # 'raise' | 'assert' | 'convert'
    rel: str = ''
    line: int = 0


def builtin_mro(name: str) -> list[str]:
    obj = getattr(builtins, name, None)
    if isinstance(obj, type) and issubclass(obj, BaseException):
        return [k.__name__ for k in obj.__mro__]
    extra = {
        'struct.error': ['struct.error', 'Exception', 'BaseException'],
        'error': ['struct.error', 'Exception', 'BaseException'],
        'binascii.Error': ['binascii.Error', 'ValueError', 'Exception', 'BaseException'],
        'JSONDecodeError': ['JSONDecodeError', 'ValueError', 'Exception', 'BaseException'],
        'CreationError': ['CreationError', 'bitstring.Error', 'Exception', 'BaseException'],
    }
    return extra.get(name, [name, 'Exception', 'BaseException'])


class Escapes:
    def __init__(self, idx: Index, cg: CallGraph, with_asserts: bool = True,
                 convert_sources: bool = False,
                 skip_how: tuple[str, ...] = ('by-name',)) -> None:
        self.idx = idx
        self.cg = cg
        self.with_asserts = with_asserts
        self.convert_sources = convert_sources
        self.skip_how = skip_how
        self._memo: dict[tuple[str, str | None], dict[Signal, tuple[str, ...]]] = {}
        self._active: set[tuple[str, str | None]] = set()

    # ---- hierarchy -----------------------------------------------------
    def exc_mro(self, f: FuncInfo | None, name: str) -> list[str]:
        short_name = name.rsplit('.', 1)[-1]
        # repo class?
        cands = [c for c in self.idx.classes.values() if c.name == short_name]
        for c in cands:
            names = []
            for k in self.idx.mro(c):
                names.append(k.name)
                for eb in k.ext_bases:
                    ebn = (eb or '').rsplit('.', 1)[-1]
                    for b in builtin_mro(ebn):
                        if b not in names:
                            names.append(b)
            if 'BaseException' in names or 'Exception' in names:
                return names
        if name in ('struct.error',):
            return builtin_mro(name)
        return builtin_mro(short_name)

    def handler_names(self, h: ast.ExceptHandler) -> list[str]:
        if h.type is None:
            return ['BaseException']
        elts = h.type.elts if isinstance(h.type, ast.Tuple) else [h.type]
        out = []
        for t in elts:
            d = dotted(t) or norm(t)
            out.append(d if d == 'struct.error' else d.rsplit('.', 1)[-1])
        return out

    def covers(self, h: ast.ExceptHandler, exc: str) -> bool:
        mro = self.exc_mro(None, exc)
        for hn in self.handler_names(h):
            if hn in mro or (hn == 'error' and 'struct.error' in mro):
                return True
        return False

    def caught_at(self, f: FuncInfo, node: ast.AST, exc: str) -> ast.ExceptHandler | None:
        """innermost handler in f that covers exc raised at node"""
        child = node
        for a in ancestors(node):
            if isinstance(a, ast.Try):
                in_body = any(child is b for b in a.body)
                if in_body:
                    for h in a.handlers:
                        if self.covers(h, exc):
                            return h
            if a is f.node:
                break
            child = a
        return None

    @staticmethod
    def handler_reraises(h: ast.ExceptHandler) -> bool:
        for n in ast.walk(h):
            if isinstance(n, ast.Raise) and n.exc is None:
                return True
        return False

    # ---- local sources ---------------------------------------------------
    def local_signals(self, f: FuncInfo) -> list[tuple[Signal, ast.AST]]:
        out: list[tuple[Signal, ast.AST]] = []
        for n in ast.walk(f.node):
            if isinstance(n, (ast.FunctionDef, ast.AsyncFunctionDef, ast.Lambda)) and n is not f.node:
                continue
            if isinstance(n, ast.Raise):
                if getattr(n, '_implicit', False):
                    continue        # written out by the normal form for a d[key] lookup: implicit in the source
                if n.exc is None:
                    # bare re-raise: propagates what the enclosing handler caught
                    for a in ancestors(n):
                        if isinstance(a, ast.ExceptHandler):
                            for hn in self.handler_names(a):
                                out.append((Signal(hn, f.qual, 're-raise ' + hn, 'raise',
                                                   f.rel, n.lineno), n))
                            break
                    continue
                target = n.exc.func if isinstance(n.exc, ast.Call) else n.exc
                name = dotted(target) or norm(target)
                if name != 'struct.error':
                    name = name.rsplit('.', 1)[-1]
                out.append((Signal(name, f.qual, short(n, 90), 'raise', f.rel, n.lineno), n))
            elif isinstance(n, ast.Assert) and self.with_asserts:
                out.append((Signal('AssertionError', f.qual, short(n, 90), 'assert',
                                   f.rel, n.lineno), n))
        return out

    def _in_nested_def(self, f: FuncInfo, node: ast.AST) -> bool:
        for a in ancestors(node):
            if a is f.node:
                return False
            if isinstance(a, (ast.FunctionDef, ast.AsyncFunctionDef, ast.Lambda)):
                return True
        return False

    # ---- interprocedural -------------------------------------------------
    def escapes(self, f: FuncInfo, self_cls: ClassInfo | None = None,
                depth: int = 0) -> dict[Signal, tuple[str, ...]]:
        key = (f.qual, self_cls.qual if self_cls is not None and f.cls is not None
               and self.idx.is_subclass(self_cls, f.cls.qual) else None)
        if key in self._memo:
            return self._memo[key]
        if key in self._active or depth > 60:
            return {}
        self._active.add(key)
        out: dict[Signal, tuple[str, ...]] = {}
        for sig, node in self.local_signals(f):
            if self._in_nested_def(f, node):
                continue
            h = self.caught_at(f, node, sig.exc)
            if h is not None and not self.handler_reraises(h):
                continue
            out.setdefault(sig, (f.qual,))
        for cs in self.cg.callsites(f, self_cls):
            if cs.how in self.skip_how:
                continue
            if self._in_nested_def(f, cs.node):
                continue
            for callee in cs.callees:
                sub = self.escapes(callee, self_cls, depth + 1)
                for sig, chain in sub.items():
                    if sig in out:
                        continue
                    h = self.caught_at(f, cs.node, sig.exc)
                    if h is not None and not self.handler_reraises(h):
                        continue
                    out[sig] = (f.qual,) + chain
        self._active.discard(key)
        self._memo[key] = out
        return out

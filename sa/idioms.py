"""E10 - small dataflow idiom checkers shared by several properties.

partial_defs_in_loops   a variable that is (re)assigned in a loop body on some paths before a
                        use and not on others: the use can see the value of the previous
                        iteration (per-item state leaking between items).  Variables never
                        assigned before the use on any path (deliberate carries: `prev`), and
                        self-referential updates (accumulators) are not reported.
truncated_scale_ratios  `a_timescale // b_timescale` (or int()/floor of the quotient): the ratio of
                        two timescales truncated before it is multiplied - a unit conversion
                        that is only right when one scale divides the other.
hash_update_sequences   per hash object, the sequence of `update()` arguments on straight-line
                        code, following `.copy()`.
"""
from __future__ import annotations

import ast
from typing import Iterable

from .core import call_name, dotted, norm
from .flow import Disjunctive, Flow, MustFacts


# ------------------------------------------------------------------ partial definitions
def _targets(t: ast.AST) -> Iterable[str]:
    if isinstance(t, ast.Name):
        yield t.id
    elif isinstance(t, (ast.Tuple, ast.List)):
        for e in t.elts:
            yield from _targets(e)
    elif isinstance(t, ast.Starred):
        yield from _targets(t.value)


def _loads(node: ast.AST) -> list[ast.Name]:
    return [n for n in ast.walk(node) if isinstance(n, ast.Name) and isinstance(n.ctx, ast.Load)]


def partial_defs_in_loops(fn: ast.AST) -> tuple[int, list[tuple[ast.AST, str, ast.AST]]]:
    """-> (loops analysed, [(loop, variable, use node)])"""
    found: list[tuple[ast.AST, str, ast.AST]] = []
    loops = [n for n in ast.walk(fn) if isinstance(n, (ast.For, ast.While))]
    for loop in loops:
        plain: set[str] = set()
        for n in ast.walk(loop):
            if n is loop:
                continue
            if isinstance(n, ast.Assign):
                for t in n.targets:
                    for name in _targets(t):
                        if name not in {x.id for x in _loads(n.value)}:
                            plain.add(name)
            elif isinstance(n, ast.AnnAssign) and n.value is not None and isinstance(n.target, ast.Name):
                if n.target.id not in {x.id for x in _loads(n.value)}:
                    plain.add(n.target.id)
        if isinstance(loop, ast.For):
            plain -= set(_targets(loop.target))
        if not plain:
            continue
        verdicts: dict[tuple[str, int, int], tuple[ast.AST, set[bool]]] = {}

        def gen(st: ast.stmt):
            out = []
            if isinstance(st, ast.Assign):
                for t in st.targets:
                    out.extend(f'def:{n}' for n in _targets(t))
            elif isinstance(st, (ast.AnnAssign, ast.AugAssign)) and isinstance(st.target, ast.Name):
                if not (isinstance(st, ast.AnnAssign) and st.value is None):
                    out.append(f'def:{st.target.id}')
            elif isinstance(st, (ast.For,)):
                out.extend(f'def:{n}' for n in _targets(st.target))
            return out

        def on_stmt(st: ast.stmt, states) -> None:
            if isinstance(st, (ast.If, ast.While)):
                reads = _loads(st.test)
            elif isinstance(st, ast.For):
                reads = _loads(st.iter)
            elif isinstance(st, (ast.With, ast.Try)):
                reads = []
            elif isinstance(st, ast.Assign):
                reads = _loads(st.value)
            elif isinstance(st, ast.AugAssign):
                reads = _loads(st.value)
            else:
                reads = _loads(st)
            for r in reads:
                if r.id not in plain:
                    continue
                k = (r.id, r.lineno, r.col_offset)
                slot = verdicts.setdefault(k, (r, set()))
                for facts in states:
                    slot[1].add(f'def:{r.id}' in facts)

        dom = Disjunctive(MustFacts(gen), cap=256)
        flow = Flow(dom, on_stmt=on_stmt)
        # one iteration of the body, nothing defined yet
        flow._loops.append({'break': [], 'continue': []})
        flow.block(loop.body, [frozenset()])
        flow._loops.pop()
        for (name, _, _), (node, vs) in verdicts.items():
            if vs == {True, False}:
                found.append((loop, name, node))
    return len(loops), found


# ------------------------------------------------------------------ ratios of scales
def _is_scale(e: ast.AST) -> bool:
    d = dotted(e)
    if d is None and isinstance(e, ast.Call) and not e.args:
        d = dotted(e.func)
    return bool(d) and d.split('.')[-1].lower().endswith(('timescale', 'timebase'))


def truncated_scale_ratios(tree: ast.AST) -> tuple[list[ast.AST], list[ast.AST]]:
    """-> (conversion sites, offending sites).  A conversion site is a quotient whose divisor is a
    timescale and whose dividend mentions a timescale."""
    sites: list[ast.AST] = []
    bad: list[ast.AST] = []
    parents: dict[ast.AST, ast.AST] = {}
    for p in ast.walk(tree):
        for c in ast.iter_child_nodes(p):
            parents[c] = p
    for n in ast.walk(tree):
        if not (isinstance(n, ast.BinOp) and isinstance(n.op, (ast.FloorDiv, ast.Div))):
            continue
        if not _is_scale(n.right):
            continue
        if not any(_is_scale(m) for m in ast.walk(n.left)):
            continue
        sites.append(n)
        if not _is_scale(n.left):
            continue
        # a bare ratio of two scales: truncated?
        if isinstance(n.op, ast.FloorDiv):
            bad.append(n)
            continue
        p = parents.get(n)
        if isinstance(p, ast.Call) and call_name(p) in ('int', 'math.floor', 'floor', 'round', 'math.trunc') \
                and p.args and p.args[0] is n:
            bad.append(n)
    return sites, bad


# ------------------------------------------------------------------ hash input sequences
def hash_update_sequences(fn: ast.FunctionDef, ctor_suffix: str = '.new') -> dict[str, list[str]] | None:
    """update() argument texts per hash variable for top-level straight-line statements of fn;
    None when a hash object is touched inside a branch or loop (not decided)."""
    seqs: dict[str, list[str]] = {}
    top = list(fn.body)
    nested = [n for st in top if not isinstance(st, (ast.Assign, ast.Expr, ast.AnnAssign, ast.Return,
                                                     ast.Assert, ast.Raise))
              for n in ast.walk(st)]
    for st in top:
        if isinstance(st, ast.Assign) and len(st.targets) == 1 and isinstance(st.targets[0], ast.Name) \
                and isinstance(st.value, ast.Call):
            cn = call_name(st.value) or ''
            tgt = st.targets[0].id
            if cn.endswith(ctor_suffix) and 'SHA' in cn.upper():
                seqs[tgt] = [norm(a) for a in st.value.args]
            elif cn.endswith('.copy') and cn[:-5] in seqs:
                seqs[tgt] = list(seqs[cn[:-5]])
        elif isinstance(st, ast.Expr) and isinstance(st.value, ast.Call):
            cn = call_name(st.value) or ''
            if cn.endswith('.update') and cn[:-7] in seqs and len(st.value.args) == 1:
                seqs[cn[:-7]].append(norm(st.value.args[0]))
    for n in nested:
        if isinstance(n, ast.Call):
            cn = call_name(n) or ''
            if (cn.endswith('.update') and cn[:-7] in seqs) or (cn.endswith('.copy') and cn[:-5] in seqs):
                return None
    return seqs


def whole_reads_in_item_loops(fn: ast.AST) -> tuple[int, list[tuple[ast.For, str, ast.AST]]]:
    """A loop over the pieces of a split text (`for item in value.split(',')`, directly or through a local
    bound to the split) decides each piece from the piece: a read of the whole text inside the loop body makes
    the verdict on one item depend on its neighbours (`if '-' in value` where `if '-' in item` was meant).
    Reads inside a `raise` (the message quotes the input) do not count.
    -> (loops analysed, [(loop, name of the whole text, reading node)])"""
    found: list[tuple[ast.For, str, ast.AST]] = []
    n_loops = 0
    splits: dict[str, str] = {}                 # local bound once to <name>.split(..) -> name
    for a in ast.walk(fn):
        if isinstance(a, ast.Assign) and len(a.targets) == 1 and isinstance(a.targets[0], ast.Name):
            b = _split_base(a.value)
            if b is not None:
                splits[a.targets[0].id] = b
    for loop in [n for n in ast.walk(fn) if isinstance(n, ast.For)]:
        base = _split_base(loop.iter)
        if base is None and isinstance(loop.iter, ast.Name):
            base = splits.get(loop.iter.id)
        if base is None:
            continue
        n_loops += 1
        stored = {x.id for st in loop.body for x in ast.walk(st) if isinstance(x, ast.Name) and isinstance(x.ctx, ast.Store)}
        if base in stored:
            continue                            # the name is reused for something else inside the loop
        in_raise = {id(x) for st in loop.body for r in ast.walk(st) if isinstance(r, ast.Raise) for x in ast.walk(r)}
        for st in loop.body:
            for x in ast.walk(st):
                if isinstance(x, ast.Name) and x.id == base and isinstance(x.ctx, ast.Load) and id(x) not in in_raise:
                    found.append((loop, base, x))
    return n_loops, found


def _split_base(e: ast.AST) -> str | None:
    while isinstance(e, ast.Call) and isinstance(e.func, ast.Name) and e.func.id in ('enumerate', 'list', 'sorted', 'reversed', 'iter') \
            and e.args:
        e = e.args[0]
    if isinstance(e, ast.Call) and isinstance(e.func, ast.Attribute) and e.func.attr in ('split', 'rsplit', 'splitlines') \
            and isinstance(e.func.value, ast.Name):
        return e.func.value.id
    return None


_OPEN_EXAMPLE = '''
def rewrite(path, chunks):
    with path.open('wb') as dest:
        for c in chunks:
            dest.write(c)
        size = path.stat().st_size
    return size
'''


def _write_open(e: ast.AST) -> str | None:
    """the path expression (normal text) when `e` opens a file for writing: P.open('wb'), open(P, 'w'), io.open(..)"""
    if not isinstance(e, ast.Call):
        return None
    mode = None
    path = None
    if isinstance(e.func, ast.Attribute) and e.func.attr == 'open' and not (
            isinstance(e.func.value, ast.Name) and e.func.value.id in ('io', 'os', 'codecs', 'gzip')):
        path = e.func.value
        mode = e.args[0] if e.args else next((k.value for k in e.keywords if k.arg == 'mode'), None)
    elif (isinstance(e.func, ast.Name) and e.func.id == 'open') or (
            isinstance(e.func, ast.Attribute) and e.func.attr == 'open'):
        path = e.args[0] if e.args else None
        mode = e.args[1] if len(e.args) > 1 else next((k.value for k in e.keywords if k.arg == 'mode'), None)
    if path is None or not (isinstance(mode, ast.Constant) and isinstance(mode.value, str)):
        return None
    if not any(ch in mode.value for ch in 'wax+'):
        return None
    return ast.unparse(path)


def observed_while_written(fn: ast.AST) -> tuple[int, list[tuple[ast.AST, str, ast.AST]]]:
    """A file that is being written through a buffered handle has its final size and content only once the
    handle is closed.  Inside `with P.open('wb') as h:` (and between `h = P.open('wb')` and `h.close()`) nothing
    may *observe* P: `P.stat()`, `os.stat(P)`, `os.path.getsize(P)`, a second open of P, a digest of P.
    -> (write-open blocks analysed, [(block, path text, observing node)])"""
    found: list[tuple[ast.AST, str, ast.AST]] = []
    n = 0

    def observes(node: ast.AST, p: str) -> bool:
        if not isinstance(node, ast.Call):
            return False
        f = node.func
        if isinstance(f, ast.Attribute) and f.attr in ('stat', 'lstat', 'read_bytes', 'read_text', 'open') \
                and ast.unparse(f.value) == p:
            return True
        name = ast.unparse(f)
        if name in ('os.stat', 'os.path.getsize', 'os.lstat', 'open', 'io.open', 'shutil.copy', 'shutil.copyfile',
                    'hashlib.file_digest') and node.args and ast.unparse(node.args[0]) == p:
            return True
        return False
    for w in [x for x in ast.walk(fn) if isinstance(x, (ast.With, ast.AsyncWith))]:
        for item in w.items:
            p = _write_open(item.context_expr)
            if p is None:
                continue
            n += 1
            for st in w.body:
                for x in ast.walk(st):
                    if observes(x, p):
                        found.append((w, p, x))
    # handle = P.open('wb') ... handle.close(): what follows in the same block, up to the close
    for holder in ast.walk(fn):
        for f_ in ('body', 'orelse', 'finalbody'):
            blk = getattr(holder, f_, None)
            if not (isinstance(blk, list) and blk and isinstance(blk[0], ast.stmt)):
                continue
            for i, a in enumerate(blk):
                if not (isinstance(a, ast.Assign) and len(a.targets) == 1 and isinstance(a.targets[0], ast.Name)):
                    continue
                p = _write_open(a.value)
                if p is None:
                    continue
                n += 1
                h = a.targets[0].id
                for st in blk[i + 1:]:
                    closed = any(isinstance(c, ast.Call) and isinstance(c.func, ast.Attribute) and c.func.attr == 'close'
                                 and isinstance(c.func.value, ast.Name) and c.func.value.id == h for c in ast.walk(st))
                    for x in ast.walk(st):
                        if observes(x, p):
                            found.append((a, p, x))
                    if closed:
                        break
    return n, found

"""E4 - binary layout extractor: reader / writer agreement of codec classes.

For a codec class the parse-side and the encode-side method bodies are turned
into *layout trees*

    Item(bits, signed, name, kind)   kind: field | skip (reader discards) |
                                           pad (writer emits a constant) | var
    If(cond, then, orelse)           cond is a normalised guard
    Loop(over, body)
    Call(target)                     nested codec / child boxes
    Ret()                            early return

recognised from the *shape* of the I/O calls (FieldReader / BitsFieldReader /
struct.unpack(src.read) on one side, FieldWriter / BitsFieldWriter /
dest.write(struct.pack) on the other), with super() chains and same-class
helpers inlined.  `compare()` linearises both trees and aligns them item by
item: order, width, signedness, guards.
"""
from __future__ import annotations

import ast
import re
from dataclasses import dataclass, field

from .core import call_name, dotted, norm
from .index import ClassInfo, FuncInfo, Index

CODE_BITS = {'B': 8, 'b': 8, 'H': 16, 'h': 16, 'I': 32, 'i': 32, 'L': 32, 'l': 32,
             'Q': 64, 'q': 64, '3I': 24, 'c': 8, 'x': 8}
SIGNED_CODES = {'b', 'h', 'i', 'l', 'q'}
VAR = 'VAR'


@dataclass
class Item:
    bits: object                 # int | 'VAR'
    signed: bool
    name: str | None
    kind: str                    # field | skip | pad | var
    line: int = 0
    const: object = None
    raw: bool = False            # value is a byte string (integer-length read)

    def show(self) -> str:
        b = self.bits if self.bits == VAR else f'{self.bits}b'
        s = 's' if self.signed else 'u'
        return f'{self.name or "_"}:{s}{b}' if self.kind in ('field', 'var') else f'<{self.kind} {b}>'


@dataclass
class If:
    cond: str
    then: list
    orelse: list
    line: int = 0


@dataclass
class Loop:
    over: str
    body: list
    line: int = 0


@dataclass
class Call:
    target: str
    line: int = 0


@dataclass
class Ret:
    line: int = 0


class Unsupported(Exception):
    pass


# --------------------------------------------------------------------------
# guard normalisation
# --------------------------------------------------------------------------
class _Norm(ast.NodeTransformer):
    def __init__(self, aliases: dict[str, ast.AST], parent_names: set[str]):
        self.aliases = aliases
        self.parent_names = parent_names

    def visit_Subscript(self, node):
        self.generic_visit(node)
        if isinstance(node.slice, ast.Constant) and isinstance(node.slice.value, str):
            base = norm(node.value)
            if base in ('rv', 'kwargs', 'r.kwargs', 'fields', 'kw', 'self._fields'):
                return ast.Name(id='F_' + node.slice.value, ctx=ast.Load())
            if base in self.parent_names:
                return ast.Name(id='P_' + node.slice.value, ctx=ast.Load())
        return node

    def visit_Call(self, node):
        self.generic_visit(node)
        if isinstance(node.func, ast.Name) and node.func.id == 'bool' and len(node.args) == 1 and not node.keywords:
            return node.args[0]           # truth of bool(x) is truth of x
        return node

    def visit_Attribute(self, node):
        if isinstance(node.value, ast.Name) and node.value.id in self.aliases:
            # trun = self.parent ; trun.flags
            seen = set()
            v = node.value
            while isinstance(v, ast.Name) and v.id in self.aliases and v.id not in seen:
                seen.add(v.id)
                v = self.aliases[v.id]
            node = ast.Attribute(value=v, attr=node.attr, ctx=ast.Load())
        base = norm(node.value)
        if base in ('self.parent', 'parent') or base in self.parent_names:
            return ast.Name(id='P_' + node.attr, ctx=ast.Load())
        self.generic_visit(node)
        if base == 'self':
            if node.attr.isupper() or re.search(r'_present$|^Use|^default_base_is|^duration_is', node.attr):
                return ast.Name(id='K_' + node.attr, ctx=ast.Load())
            return ast.Name(id='F_' + node.attr, ctx=ast.Load())
        if base in ('clz', 'cls') or (isinstance(node.value, ast.Name) and node.value.id[:1].isupper()):
            return ast.Name(id='K_' + node.attr, ctx=ast.Load())
        if base in ('self.parent', 'parent') or base in self.parent_names:
            return ast.Name(id='P_' + node.attr, ctx=ast.Load())
        return node

    def visit_Name(self, node):
        if node.id in self.aliases:
            return self.visit(self.aliases[node.id])
        return node

    def visit_UnaryOp(self, node):
        self.generic_visit(node)
        if isinstance(node.op, ast.Not) and isinstance(node.operand, ast.UnaryOp) and isinstance(node.operand.op, ast.Not):
            return node.operand.operand            # not (not x): the truth of x
        return node

    def visit_Compare(self, node):
        self.generic_visit(node)
        if len(node.ops) == 1:
            l, r = node.left, node.comparators[0]
            if isinstance(node.ops[0], ast.Eq) and isinstance(l, ast.BinOp) and isinstance(l.op, ast.BitAnd):
                if norm(l.right) == norm(r):
                    return l
            if isinstance(node.ops[0], ast.NotEq) and isinstance(r, ast.Constant) and r.value == 0:
                return l
            if isinstance(node.ops[0], ast.Eq) and isinstance(r, ast.Constant) and r.value is True:
                return l
        return node


def negate_cond(c: str) -> str:
    """text of the negated guard; the negation of `not x` is x"""
    try:
        e = ast.parse(c, mode='eval').body
    except SyntaxError:
        return f'not ({c})'
    if isinstance(e, ast.UnaryOp) and isinstance(e.op, ast.Not):
        return norm(e.operand)
    return f'not ({c})'


def norm_cond(expr: ast.AST, aliases: dict[str, ast.AST], parent_names: set[str]) -> str:
    e = _Norm(aliases, parent_names).visit(ast.parse(norm(expr), mode='eval').body)
    ast.fix_missing_locations(e)
    t = norm(e)
    t = re.sub(r'0x0*([0-9a-fA-F]+)', lambda m: str(int(m.group(1), 16)), t)
    t = re.sub(r'^\((.*)\)$', r'\1', t)
    return t


# --------------------------------------------------------------------------
def fmt_items(fmt: str, names: list[str | None], line: int) -> list[Item]:
    fmt = fmt.lstrip('<>!=@')
    out: list[Item] = []
    toks = re.findall(r'(\d*)([a-zA-Z])', fmt)
    k = 0
    for cnt, code in toks:
        n = int(cnt) if cnt else 1
        if code == 's':
            out.append(Item(n * 8, False, names[k] if k < len(names) else None, 'field', line))
            k += 1
            continue
        for _ in range(n):
            if code not in CODE_BITS:
                raise Unsupported(f'struct code {code}')
            nm = names[k] if k < len(names) else None
            kind = 'pad' if code == 'x' else 'field'
            out.append(Item(CODE_BITS[code], code in SIGNED_CODES, nm, kind, line))
            k += 1
    return out


class Extractor:
    def __init__(self, idx: Index) -> None:
        self.idx = idx
        self._bits_mode: dict[str, bool] = {}
        self.inline_nested = False
        self.inline_names: set[str] = set()

    # ---- which methods form the pair --------------------------------------
    PARSE_NAMES = ('parse', 'parse_payload', 'parse_fields', 'from_kwargs')
    ENCODE_NAMES = ('encode_box_fields', 'encode_fields', 'encode')

    def pair(self, cls: ClassInfo) -> tuple[FuncInfo | None, FuncInfo | None]:
        own = set(cls.methods)
        generic = ('Mp4Atom', 'ObjectWithFields', 'Descriptor')
        for pn, en in (('parse_fields', 'encode_fields'), ('parse_payload', 'encode_fields'),
                       ('parse', 'encode_fields'), ('parse', 'encode'),
                       ('from_kwargs', 'encode')):
            if pn not in own and en not in own:
                continue
            p = self.idx.find_method(cls, pn)
            e = self.idx.find_method(cls, en)
            if p is None or e is None:
                continue
            if p.cls is not None and p.cls.name in generic and cls.name not in generic:
                continue
            if e.cls is not None and e.cls.name in generic and cls.name not in generic:
                continue
            if any('abstractmethod' in norm(d) for d in e.node.decorator_list) \
                    or any('abstractmethod' in norm(d) for d in p.node.decorator_list):
                continue
            return p, e
        return None, None

    def infer_bits_mode(self, classes: list[ClassInfo]) -> None:
        """a codec whose reader/writer is a parameter works at bit level when its callers
        hand it a BitsFieldReader / BitsFieldWriter / BitArray"""
        names = {c.name: c for c in classes}
        for c in classes:
            for f in c.methods.values():
                bits_locals: set[str] = set()
                for n in ast.walk(f.node):
                    if isinstance(n, ast.Assign) and isinstance(n.value, ast.Call) \
                            and isinstance(n.targets[0], ast.Name):
                        cn = (call_name(n.value) or '').rsplit('.', 1)[-1]
                        if cn in ('BitsFieldReader', 'BitsFieldWriter', 'BitArray'):
                            bits_locals.add(n.targets[0].id)
                        if cn == 'duplicate' and isinstance(n.value.func, ast.Attribute) \
                                and norm(n.value.func.value) in bits_locals:
                            bits_locals.add(n.targets[0].id)
                for a in f.node.args.args:
                    if a.annotation is not None and 'Bits' in norm(a.annotation):
                        bits_locals.add(a.arg)
                for n in ast.walk(f.node):
                    if isinstance(n, ast.Call) and isinstance(n.func, ast.Attribute) and n.args \
                            and isinstance(n.args[0], ast.Name) and n.args[0].id in bits_locals:
                        recv = n.func.value
                        tgt = None
                        if isinstance(recv, ast.Name) and recv.id in names:
                            tgt = names[recv.id]
                        elif n.func.attr in ('encode', 'encode_fields') or n.func.attr.startswith('parse'):
                            # x.encode(w): x element of a ListOf(Class) field -> by method name
                            for k in classes:
                                if n.func.attr in k.methods and k is not c and \
                                        len(k.methods[n.func.attr].node.args.args) >= 2:
                                    pass
                        if tgt is not None:
                            self._bits_mode[tgt.qual] = True

    # ---- size expressions ----------------------------------------------------
    def size_bits(self, node: ast.AST, bits_mode: bool, env: dict) -> tuple[object, bool]:
        if isinstance(node, ast.Constant):
            v = node.value
            if v is None:
                return VAR, False
            if isinstance(v, int):
                return (v if bits_mode else v * 8), False
            if isinstance(v, str):
                if v in CODE_BITS:
                    return CODE_BITS[v], v in SIGNED_CODES
                if v == 'S0' or v == 'S':
                    return VAR, False
                m = re.fullmatch(r'S(\d+)', v)
                if m:
                    return int(m.group(1)) * 8, False
                m = re.fullmatch(r'D(\d+)\.(\d+)', v)
                if m:
                    return int(m.group(1)) + int(m.group(2)), False
                raise Unsupported(f'size code {v!r}')
        if isinstance(node, ast.BinOp) and isinstance(node.op, ast.Mult):
            a, b = self.size_bits(node.left, True, env), self.size_bits(node.right, True, env)
            if isinstance(a[0], int) and isinstance(b[0], int):
                n = a[0] * b[0]
                return (n if bits_mode else n * 8), False
        if isinstance(node, ast.Name) and node.id in env and isinstance(env[node.id], tuple):
            return env[node.id][0], env[node.id][1]
        if isinstance(node, ast.Attribute) and isinstance(node.value, ast.Name) and '@cls' in env:
            # self.CRC_SIZE / Klass.CRC_SIZE: an integer constant of the class
            c = env['@cls']
            if node.value.id in ('self', 'cls', 'clz', c.name):
                hit = self.idx.find_attr(c, node.attr)
                if hit is not None and isinstance(hit[1], ast.Constant) and isinstance(hit[1].value, int) \
                        and not isinstance(hit[1].value, bool):
                    v = hit[1].value
                    return (v if bits_mode else v * 8), False
        return VAR, False

    # ---- extraction --------------------------------------------------------
    def extract(self, f: FuncInfo, side: str, self_cls: ClassInfo, depth: int = 0) -> list:
        if depth > 6:
            raise Unsupported('inlining too deep')
        ctx = _Ctx(self, f, side, self_cls, depth)
        return ctx.block(f.node.body)


class _Ctx:
    def __init__(self, ex: Extractor, f: FuncInfo, side: str, self_cls: ClassInfo, depth: int):
        self.ex = ex
        self.f = f
        self.side = side
        self.self_cls = self_cls
        self.depth = depth
        self.env: dict[str, object] = {'@cls': self_cls}     # name -> (bits, signed) for width variables
        self.aliases: dict[str, ast.AST] = {}     # name -> expression (guards)
        self.bits_vars: set[str] = set()          # names bound to bit-level readers/writers
        self.byte_vars: set[str] = set()
        self.parent_names: set[str] = set()
        self.cond_env: dict[str, list] = {}       # name -> [(cond, (bits, signed))]
        self.fmt_cond_env: dict[str, list] = {}   # name -> [(cond, struct format string)]
        self.zero_when: dict[str, tuple] = {}     # count name -> (cond, zero on the then branch?)
        self.struct_vars: dict[str, str] = {}     # name -> format of a struct.Struct object
        args = [a.arg for a in f.node.args.args]
        self.params = args
        # bit readers/writers passed in as parameters
        for a in f.node.args.args:
            ann = norm(a.annotation) if a.annotation is not None else ''
            if 'Bits' in ann:
                self.bits_vars.add(a.arg)
        if side == 'parse':
            for nm in ('trun', 'tfhd', 'parent'):
                if nm in args:
                    self.parent_names.add(nm)

    # -- helpers ---------------------------------------------------------
    def is_bits(self, recv: str) -> bool:
        if recv in self.bits_vars:
            return True
        if recv in self.byte_vars:
            return False
        # a reader/writer received as a parameter and used with (int size, 'name') works at
        # bit level: byte-level codecs build their own FieldReader/FieldWriter from the stream
        if recv in self.params:
            return True
        return self.ex._bits_mode.get(self.self_cls.qual, False)

    def cond(self, e: ast.AST) -> str:
        return norm_cond(e, self.aliases, self.parent_names)

    def label_from_value(self, v: ast.AST | None) -> str | None:
        if v is None:
            return None
        for n in ast.walk(v):
            if isinstance(n, ast.Attribute) and isinstance(n.value, ast.Name) and n.value.id == 'self':
                return n.attr
        return None

    # -- statements ------------------------------------------------------
    def block(self, stmts: list[ast.stmt]) -> list:
        out: list = []
        for st in stmts:
            out.extend(self.stmt(st))
        return out

    def stmt(self, st: ast.stmt) -> list:
        if isinstance(st, ast.If):
            c = self.cond(st.test)
            env0 = dict(self.env)
            then = self.block(st.body)
            orelse = self.block(st.orelse)
            # width variables assigned in both branches: sz = 'Q' / 'I'
            self._cond_width(st, c, env0)
            self._zero_counts(st, c)
            if not then and not orelse:
                return []
            return [If(c, then, orelse, st.lineno)]
        if isinstance(st, (ast.For, ast.While)):
            body = self.block(st.body)
            if not body:
                return []
            over = norm(st.iter) if isinstance(st, ast.For) else 'while ' + norm(st.test)
            return self._guarded_loop(st.iter if isinstance(st, ast.For) else None,
                                      Loop(self._loop_norm(over), body, st.lineno))
        if isinstance(st, ast.Return):
            items = self.expr_io(st.value, None, st.lineno) if st.value is not None else []
            return items + [Ret(st.lineno)]
        if isinstance(st, ast.Try):
            out = self.block(st.body)
            for h in st.handlers:
                hb = self.block(h.body)
                if hb and not (len(hb) == len(out) and all(
                        isinstance(a, Item) and isinstance(b, Item) and a.bits == b.bits
                        for a, b in zip(hb, out))):
                    raise Unsupported('I/O inside an except handler')
            return out + self.block(st.orelse) + self.block(st.finalbody)
        if isinstance(st, (ast.With,)):
            return self.block(st.body)
        if isinstance(st, ast.Assign):
            return self.assign(st)
        if isinstance(st, ast.AnnAssign) and st.value is not None:
            fake = ast.Assign(targets=[st.target], value=st.value, lineno=st.lineno)
            fake._orig = st
            return self.assign(fake)
        if isinstance(st, ast.AugAssign):
            return self.expr_io(st.value, None, st.lineno)
        if isinstance(st, ast.Expr):
            return self.expr_io(st.value, None, st.lineno)
        if isinstance(st, (ast.Assert, ast.Raise, ast.Pass, ast.Delete, ast.Global, ast.Import,
                           ast.ImportFrom, ast.Continue, ast.Break)):
            return []
        if isinstance(st, (ast.FunctionDef, ast.ClassDef)):
            return []
        raise Unsupported(f'statement {type(st).__name__}')

    def _zero_counts(self, st: ast.If, c: str) -> None:
        """count = r.get(...) if cond else 0 (in statement form): a loop over range(count) does no I/O
        when the condition is false, so it is the guarded loop of the other side"""
        def consts(body):
            return {s.targets[0].id for s in body
                    if isinstance(s, ast.Assign) and len(s.targets) == 1 and isinstance(s.targets[0], ast.Name)
                    and isinstance(s.value, ast.Constant) and s.value.value == 0
                    and not isinstance(s.value.value, bool)}

        def assigned(body):
            return {s.targets[0].id for s in body
                    if isinstance(s, ast.Assign) and len(s.targets) == 1 and isinstance(s.targets[0], ast.Name)}
        for zero_body, other, zero_in_then in ((st.body, st.orelse, True), (st.orelse, st.body, False)):
            for k in consts(zero_body) & (assigned(other) - consts(other)):
                if self._assign_count(k) == 2:
                    self.zero_when[k] = (c, zero_in_then)

    def _guarded_loop(self, it: ast.AST | None, loop) -> list:
        if isinstance(it, ast.Call) and isinstance(it.func, ast.Name) and it.func.id == 'range' \
                and len(it.args) == 1 and not it.keywords:
            it = it.args[0]
        if isinstance(it, ast.Name) and it.id in self.zero_when:
            c, zero_in_then = self.zero_when[it.id]
            return [If(c, [], [loop], loop.line)] if zero_in_then else [If(c, [loop], [], loop.line)]
        return [loop]

    def _loop_norm(self, over: str) -> str:
        over = re.sub(r'\brange\((.*)\)$', r'\1', over)
        over = re.sub(r"\b(rv|kwargs)\[['\"](\w+)['\"]\]", r'F_\2', over)
        over = re.sub(r'\bself\.(\w+)', r'F_\1', over)
        over = re.sub(r'^len\((.*)\)$', r'\1', over)
        return over

    def _cond_width(self, st: ast.If, c: str, env0: dict | None = None) -> None:
        def widths(body):
            out = {}
            for s in body:
                if isinstance(s, ast.Assign) and len(s.targets) == 1 and isinstance(s.targets[0], ast.Name) \
                        and isinstance(s.value, ast.Constant) and isinstance(s.value.value, str) \
                        and s.value.value in CODE_BITS:
                    out[s.targets[0].id] = (CODE_BITS[s.value.value], s.value.value in SIGNED_CODES)
            return out
        a, b = widths(st.body), widths(st.orelse)
        for k in set(a) & set(b):
            self.cond_env[k] = [(c, a[k]), (negate_cond(c), b[k])]
            self.env.pop(k, None)
        # fmt = 'I' ; if signed: fmt = 'i'  - a default overridden on one branch
        for k in (set(a) | set(b)) - (set(a) & set(b)):
            if env0 is not None and isinstance(env0.get(k), tuple):
                old = env0[k]
                self.env.pop(k, None)
                self.cond_env[k] = [(c, a[k]), (negate_cond(c), old)] if k in a else \
                    [(c, old), (negate_cond(c), b[k])]

        # struct format variables, alone or as one element of a tuple: fmt, width = ('>Q', 8)
        def formats(body):
            out = {}
            for s in body:
                if not (isinstance(s, ast.Assign) and len(s.targets) == 1):
                    continue
                pairs = []
                t, v = s.targets[0], s.value
                if isinstance(t, ast.Name):
                    pairs.append((t, v))
                elif isinstance(t, (ast.Tuple, ast.List)) and isinstance(v, (ast.Tuple, ast.List)) \
                        and len(t.elts) == len(v.elts):
                    pairs.extend(zip(t.elts, v.elts))
                for tt, vv in pairs:
                    if isinstance(tt, ast.Name) and isinstance(vv, ast.Constant) and isinstance(vv.value, str) \
                            and re.fullmatch(r'[<>!=@]?[0-9xcbB?hHiIlLqQnNefdspP]+', vv.value) \
                            and vv.value not in CODE_BITS:
                        out[tt.id] = vv.value
            return out
        fa, fb = formats(st.body), formats(st.orelse)
        for k in set(fa) & set(fb):
            self.fmt_cond_env[k] = [(c, fa[k]), (negate_cond(c), fb[k])]

    def assign(self, st: ast.Assign) -> list:
        t = st.targets[0]
        v = st.value
        # reader / writer construction
        if isinstance(v, ast.Call):
            cn = call_name(v) or ''
            short_cn = cn.rsplit('.', 1)[-1]
            if short_cn in ('FieldReader', 'FieldWriter') and isinstance(t, ast.Name):
                self.byte_vars.add(t.id)
                return []
            if short_cn in ('BitsFieldReader', 'BitsFieldWriter') and isinstance(t, ast.Name):
                self.bits_vars.add(t.id)
                return []
            if short_cn == 'duplicate' and isinstance(t, ast.Name):
                recv = norm(v.func.value) if isinstance(v.func, ast.Attribute) else ''
                (self.bits_vars if self.is_bits(recv) else self.byte_vars).add(t.id)
                return []
        if isinstance(t, ast.Name):
            self.struct_vars.pop(t.id, None)
            if isinstance(v, ast.Call) and (call_name(v) or '').split('.')[-1] == 'Struct' and len(v.args) == 1 \
                    and isinstance(v.args[0], ast.Constant) and isinstance(v.args[0].value, str):
                self.struct_vars[t.id] = v.args[0].value
                return []
        # width variable
        if isinstance(t, ast.Name) and isinstance(v, ast.Constant) and isinstance(v.value, str) \
                and v.value in CODE_BITS:
            self.env[t.id] = (CODE_BITS[v.value], v.value in SIGNED_CODES)
            self.cond_env.pop(t.id, None)
            return []
        if isinstance(t, ast.Name) and isinstance(v, ast.IfExp) \
                and all(isinstance(x, ast.Constant) and x.value in CODE_BITS for x in (v.body, v.orelse)):
            c = self.cond(v.test)
            self.cond_env[t.id] = [(c, (CODE_BITS[v.body.value], v.body.value in SIGNED_CODES)),
                                   (negate_cond(c), (CODE_BITS[v.orelse.value],
                                                        v.orelse.value in SIGNED_CODES))]
            return []
        # guard aliases: flags = trun["flags"] ; subsample_encryption = (flags & K) == K
        # (only names assigned exactly once, at the top level of the method)
        if isinstance(t, ast.Name) and not self._has_io(v):
            orig = getattr(st, '_orig', st)
            if self._assign_count(t.id) == 1 and t.id not in self.params \
                    and (orig in self.f.node.body or self._uses_follow(orig, t.id)):
                self.aliases[t.id] = v
            return []
        name = None
        if isinstance(t, ast.Subscript) and isinstance(t.slice, ast.Constant):
            name = str(t.slice.value)
        elif isinstance(t, ast.Name):
            name = t.id
        elif isinstance(t, ast.Attribute):
            name = t.attr
        return self.expr_io(v, name, st.lineno)

    def _uses_follow(self, st: ast.stmt, name: str) -> bool:
        """every read of `name` is in a statement after `st` in the same block (the assignment, made
        inside a branch, dominates all its uses)"""
        for n in ast.walk(self.f.node):
            for fld in ('body', 'orelse', 'finalbody'):
                blk = getattr(n, fld, None)
                if isinstance(blk, list) and any(x is st for x in blk):
                    i = next(j for j, x in enumerate(blk) if x is st)
                    inside = {id(x) for later in blk[i + 1:] for x in ast.walk(later)}
                    return all(id(x) in inside for x in ast.walk(self.f.node)
                               if isinstance(x, ast.Name) and x.id == name and isinstance(x.ctx, ast.Load))
        return False

    def _assign_count(self, name: str) -> int:
        n = 0
        for x in ast.walk(self.f.node):
            if isinstance(x, (ast.Assign, ast.AugAssign, ast.AnnAssign, ast.For)):
                tg = x.targets if isinstance(x, ast.Assign) else [x.target]
                for t in tg:
                    for nm in ast.walk(t):
                        if isinstance(nm, ast.Name) and nm.id == name:
                            n += 1
        return n

    def _has_io(self, e: ast.AST) -> bool:
        for n in ast.walk(e):
            if isinstance(n, ast.Call):
                if isinstance(n.func, ast.Attribute) and n.func.attr in (
                        'read', 'get', 'skip', 'read_bytes', 'get_bytes', 'write', 'writebits',
                        'write_bytes', 'parse', 'load', 'encode', 'parse_payload', 'unpack',
                        'parse_fields', 'append_writer', 'from_kwargs', 'done', 'toBytes'):
                    return True
                if call_name(n) in ('struct.unpack',):
                    return True
        return False

    # -- expressions with I/O ------------------------------------------------
    def expr_io(self, e: ast.AST | None, name: str | None, line: int) -> list:
        if e is None:
            return []
        out: list = []
        if isinstance(e, (ast.ListComp, ast.GeneratorExp)) and len(e.generators) == 1 \
                and not e.generators[0].ifs and self._has_io(e.elt) and not self._has_io(e.generators[0].iter):
            # [r.get('I', 'matrix') for _ in range(9)]: the element's I/O once per iteration
            body = self.expr_io(e.elt, None, line)
            if not body:
                return []
            return self._guarded_loop(e.generators[0].iter,
                                      Loop(self._loop_norm(norm(e.generators[0].iter)), body, line))
        # xs.extend(read(..) for _ in range(n)): a comprehension with I/O as an argument
        comps = [n for n in ast.walk(e) if isinstance(n, (ast.ListComp, ast.GeneratorExp)) and n is not e
                 and len(n.generators) == 1 and not n.generators[0].ifs and self._has_io(n.elt)
                 and not self._has_io(n.generators[0].iter)]
        if len(comps) == 1:
            inside = {id(x) for x in ast.walk(comps[0])}
            others = [n for n in ast.walk(e) if isinstance(n, ast.Call) and id(n) not in inside and self._has_io(n)
                      and not any(x is comps[0] for x in ast.walk(n))]
            if not others:
                return self.expr_io(comps[0], name, line)
        calls = [n for n in ast.walk(e) if isinstance(n, ast.Call)]
        # innermost-first order == source order for our idioms
        handled: set[int] = set()
        for c in sorted(calls, key=lambda n: (n.lineno, n.col_offset)):
            if id(c) in handled:
                continue
            items = self.call_io(c, name, handled)
            out.extend(items)
        return out

    def call_io(self, c: ast.Call, name: str | None, handled: set[int]) -> list:
        cn = call_name(c) or ''
        line = c.lineno
        fn = c.func
        # struct.unpack(fmt, src.read(n))
        if cn == 'struct.unpack' and len(c.args) == 2 and isinstance(c.args[0], ast.Constant):
            for sub in ast.walk(c.args[1]):
                if isinstance(sub, ast.Call):
                    handled.add(id(sub))
            return fmt_items(c.args[0].value, [name], line)
        if cn == 'struct.unpack' and len(c.args) == 2 and isinstance(c.args[0], ast.Name) \
                and c.args[0].id in self.fmt_cond_env:
            for sub in ast.walk(c.args[1]):
                if isinstance(sub, ast.Call):
                    handled.add(id(sub))
            (c1, f1), (c2, f2) = self.fmt_cond_env[c.args[0].id]
            return [If(c1, fmt_items(f1, [name], line), fmt_items(f2, [name], line), line)]
        if not isinstance(fn, ast.Attribute):
            return []
        recv = norm(fn.value)
        m = fn.attr
        args = c.args
        kw = {k.arg: k.value for k in c.keywords}
        # fmt = struct.Struct('>I') ; fmt.unpack(src.read(4))
        if m == 'unpack' and isinstance(fn.value, ast.Name) and fn.value.id in self.struct_vars and len(args) == 1:
            for sub in ast.walk(args[0]):
                if isinstance(sub, ast.Call):
                    handled.add(id(sub))
            return fmt_items(self.struct_vars[fn.value.id], [name], line)
        if self.side == 'parse':
            if m in ('read', 'get') and len(args) >= 2 and isinstance(args[1], ast.Constant) \
                    and isinstance(args[1].value, str):
                bits, signed = self._size(args[0], recv)
                if m == 'get' and name is None:
                    return self._sized(bits, False, None, 'skip', line)     # value discarded
                label = args[1].value if m == 'read' else (name or args[1].value)
                items = self._sized(bits, signed, label, 'field', line)
                is_raw = not self.is_bits(recv) and not (
                    isinstance(args[0], ast.Constant) and isinstance(args[0].value, str)) \
                    and not (isinstance(args[0], ast.Name) and (args[0].id in self.env
                                                              or args[0].id in self.cond_env))
                has_encoder = any(k.arg == 'encoder' for k in c.keywords) or len(args) > 3
                if m == 'get':
                    par = getattr(c, '_parent', None)
                    if not isinstance(par, (ast.Assign, ast.AnnAssign)):
                        is_raw = False       # converted on the spot: str(r.get(4, ..), 'ascii')
                for it in items:
                    if isinstance(it, Item):
                        it.raw = is_raw and not has_encoder
                return items
            if m == 'skip' and len(args) == 1:
                bits, signed = self._size(args[0], recv)
                return self._sized(bits, False, None, 'skip', line)
            if m in ('read_bytes', 'get_bytes') and len(args) >= 2:
                n = args[0]
                bits = n.value * 8 if isinstance(n, ast.Constant) and isinstance(n.value, int) else VAR
                label = args[1].value if isinstance(args[1], ast.Constant) else name
                return [Item(bits, False, label if m == 'read_bytes' else (name or label),
                             'field' if bits != VAR else 'var', line)]
            if m == 'read' and len(args) <= 1 and not kw:
                if not args:
                    return [Item(VAR, False, name, 'var', line)]
                n = args[0]
                if isinstance(n, ast.Constant) and isinstance(n.value, int):
                    return [Item(n.value * 8, False, name, 'field' if name else 'skip', line)]
                return [Item(VAR, False, name, 'var', line)]
            if m in ('parse', 'load', 'parse_payload', 'parse_fields', 'from_kwargs'):
                return self._nested(c, recv, m, line)
            return []
        # ---- encode side ----
        if m == 'write' and len(args) >= 2 and isinstance(args[1], ast.Constant) \
                and isinstance(args[1].value, str):
            bits, signed = self._size(args[0], recv)
            val = kw.get('value') if 'value' in kw else (args[2] if len(args) > 2 else None)
            if val is not None:
                k = self._const_bytes(val)
                if k is not None:
                    return [Item(bits if bits != VAR else k[0], False, None, 'pad', line, k[1])]
                if isinstance(val, ast.Constant) and isinstance(val.value, int) \
                        and not isinstance(val.value, bool) and bits != VAR \
                        and not isinstance(bits, tuple):
                    return [Item(bits, False, None, 'pad', line, val.value)]
                if isinstance(bits, int):
                    packed = self._packed_word(val, bits, line)
                    if packed is not None:
                        return packed
            return self._sized(bits, signed, args[1].value, 'field', line)
        if m == 'writebits' and len(args) >= 2:
            n = args[0]
            bits = n.value if isinstance(n, ast.Constant) and isinstance(n.value, int) else VAR
            val = kw.get('value') if 'value' in kw else (args[2] if len(args) > 2 else None)
            label = args[1].value if isinstance(args[1], ast.Constant) else None
            if val is not None and isinstance(val, ast.Constant) and isinstance(val.value, int) \
                    and not isinstance(val.value, bool):
                return [Item(bits, False, None, 'pad', line, val.value)]
            return [Item(bits, False, label, 'field', line)]
        if m == 'write_bytes' and args:
            label = args[0].value if isinstance(args[0], ast.Constant) else None
            ln = kw.get('length', args[1] if len(args) > 1 else None)
            bits = ln.value * 8 if isinstance(ln, ast.Constant) and isinstance(ln.value, int) else VAR
            return [Item(bits, False, label, 'field' if bits != VAR else 'var', line)]
        if m == 'append' and len(args) == 1 and isinstance(args[0], ast.Call):
            a = args[0]
            an = call_name(a) or ''
            if an == 'bitstring.pack' and a.args and isinstance(a.args[0], ast.Constant):
                handled.add(id(a))
                out = []
                toks = [t.strip() for t in a.args[0].value.split(',')]
                for tk, val in zip(toks, a.args[1:]):
                    mm = re.fullmatch(r'(uint|int|bits|bytes):(\d+)', tk)
                    if tk == 'bool':
                        nb, sg = 1, False
                    elif mm:
                        nb = int(mm.group(2)) * (8 if mm.group(1) == 'bytes' else 1)
                        sg = mm.group(1) == 'int'
                    else:
                        raise Unsupported(f'bitstring token {tk}')
                    if isinstance(val, ast.Constant) and isinstance(val.value, int) \
                            and not isinstance(val.value, bool):
                        out.append(Item(nb, False, None, 'pad', line, val.value))
                    else:
                        out.append(Item(nb, sg, self.label_from_value(val), 'field', line))
                return out
            if an == 'bitstring.Bits':
                handled.add(id(a))
                akw = {k.arg: k.value for k in a.keywords}
                ln = akw.get('length')
                nb = ln.value if isinstance(ln, ast.Constant) and isinstance(ln.value, int) else VAR
                val = akw.get('uint', akw.get('int', akw.get('bytes')))
                if isinstance(val, ast.Constant) and isinstance(val.value, int):
                    return [Item(nb, False, None, 'pad', line, val.value)]
                return [Item(nb, 'int' in akw, self.label_from_value(val), 'field', line)]
            return []
        if m == 'write' and len(args) == 1 and not kw:
            a = args[0]
            if isinstance(a, ast.Attribute) and a.attr == 'bytes' or \
                    (isinstance(a, ast.Call) and isinstance(a.func, ast.Attribute)
                     and a.func.attr in ('toBytes', 'tobytes')):
                return []          # flush of a bit buffer assembled above
            if isinstance(a, ast.Call) and call_name(a) == 'struct.pack' and a.args \
                    and isinstance(a.args[0], ast.Constant):
                handled.add(id(a))
                names = [self.label_from_value(x) for x in a.args[1:]]
                items = fmt_items(a.args[0].value, names, line)
                for it, x in zip(items, a.args[1:]):
                    if isinstance(x, ast.Constant) and isinstance(x.value, int):
                        it.kind, it.const, it.name = 'pad', x.value, None
                return items
            k = self._const_bytes(a)
            if k is not None:
                return [Item(k[0], False, None, 'pad', line, k[1])]
            if isinstance(a, ast.Call):
                for sub in ast.walk(a):
                    if isinstance(sub, ast.Call):
                        handled.add(id(sub))
                inner = call_name(a) or ''
                if inner.endswith('.encode') and not a.args and isinstance(a.func, ast.Attribute) \
                        and not isinstance(a.func.value, ast.Subscript) \
                        and 'ascii' not in norm(a) and 'utf' not in norm(a):
                    return [Call('encode:' + norm(a.func.value), line)]
            return [Item(VAR, False, self.label_from_value(a), 'var', line)]
        if m in ('encode', 'encode_fields', 'encode_box_fields') or \
                (m.startswith('output_') or m.startswith('encode_')):
            return self._nested(c, recv, m, line)
        if m == 'append_writer':
            return []
        return []

    def _const_bytes(self, v: ast.AST):
        """(bits, value) for b'\\0' * n / constant bytes / struct.pack of constants"""
        if isinstance(v, ast.Constant) and isinstance(v.value, bytes):
            return len(v.value) * 8, v.value
        if isinstance(v, ast.BinOp) and isinstance(v.op, ast.Mult):
            parts = []
            node = v
            mult = 1
            base = None
            stack = [v]
            ok = True
            while stack:
                n = stack.pop()
                if isinstance(n, ast.BinOp) and isinstance(n.op, ast.Mult):
                    stack += [n.left, n.right]
                elif isinstance(n, ast.Constant) and isinstance(n.value, int):
                    mult *= n.value
                elif isinstance(n, ast.Constant) and isinstance(n.value, bytes):
                    base = n.value
                else:
                    ok = False
            if ok and base is not None:
                return len(base) * 8 * mult, base * mult
        return None

    def _size(self, node: ast.AST, recv: str) -> tuple[object, bool]:
        if isinstance(node, ast.Name) and node.id in self.cond_env:
            return ('COND', node.id), False
        return self.ex.size_bits(node, self.is_bits(recv), self.env)

    def _packed_word(self, val: ast.AST, total: int, line: int) -> list | None:
        """`(a << 31) | ((b & 0x07) << 28) | (c & 0x0FFFFFFF)` written as one word: the bit fields it
        packs, most significant first; bits no term covers are constant-zero padding.  None when a
        term is not of the shift/mask form."""
        terms: list[ast.AST] = []

        def flat(e: ast.AST) -> None:
            if isinstance(e, ast.BinOp) and isinstance(e.op, (ast.BitOr, ast.Add)):
                flat(e.left)
                flat(e.right)
            else:
                terms.append(e)
        flat(val)
        if len(terms) == 1 and isinstance(val, ast.BinOp) and isinstance(val.op, ast.BitAnd):
            # one value cut by a mask: `w.write(33, 'pts', value=self.pts & 0xFFFFFFFF)` writes a 32-bit field under
            # a zero bit - narrower than what the reader takes for the field.  A mask as wide as the field is no cut.
            for a, b in ((val.left, val.right), (val.right, val.left)):
                if isinstance(b, ast.Constant) and isinstance(b.value, int) and not isinstance(b.value, bool) \
                        and b.value > 0 and (b.value & (b.value + 1)) == 0:
                    w_ = b.value.bit_length()
                    nm = a.attr if isinstance(a, ast.Attribute) and isinstance(a.value, ast.Name) and a.value.id == 'self' \
                        else a.id if isinstance(a, ast.Name) else None
                    if nm is None or w_ >= total:
                        return None
                    return [Item(total - w_, False, None, 'pad', line, 0), Item(w_, False, nm, 'field', line)]
            return None
        if len(terms) < 2:
            return None
        fields: list[tuple[int, int | None, str]] = []     # (shift, width or None, name)
        for t in terms:
            shift = 0
            if isinstance(t, ast.BinOp) and isinstance(t.op, ast.LShift) \
                    and isinstance(t.right, ast.Constant) and isinstance(t.right.value, int):
                shift, t = t.right.value, t.left
            width = None
            if isinstance(t, ast.BinOp) and isinstance(t.op, ast.BitAnd):
                for a, b in ((t.left, t.right), (t.right, t.left)):
                    if isinstance(b, ast.Constant) and isinstance(b.value, int) and b.value > 0 \
                            and (b.value & (b.value + 1)) == 0:
                        width, t = b.value.bit_length(), a
                        break
                else:
                    return None
            if isinstance(t, ast.Call) and isinstance(t.func, ast.Name) and t.func.id in ('int', 'bool') \
                    and len(t.args) == 1:
                t = t.args[0]
                if width is None and isinstance(t, ast.AST):
                    pass
            name = None
            if isinstance(t, ast.Attribute) and isinstance(t.value, ast.Name) and t.value.id == 'self':
                name = t.attr
            elif isinstance(t, ast.Name):
                name = t.id
            if name is None:
                return None
            fields.append((shift, width, name))
        fields.sort(key=lambda f: -f[0])
        out: list = []
        top = total
        for shift, width, name in fields:
            if width is None:
                width = top - shift          # an unmasked term owns everything above its shift
            if width <= 0 or shift + width > top:
                return None                  # overlapping terms: not a packing this models
            if shift + width < top:
                out.append(Item(top - shift - width, False, None, 'pad', line, 0))
            out.append(Item(width, False, name, 'field', line))
            top = shift
        if top > 0:
            out.append(Item(top, False, None, 'pad', line, 0))
        return out

    def _sized(self, bits, signed, label, kind, line) -> list:
        if isinstance(bits, tuple) and bits[0] == 'COND':
            alts = self.cond_env[bits[1]]
            (c1, (b1, s1)), (_c2, (b2, s2)) = alts
            return [If(c1, [Item(b1, s1, label, kind, line)], [Item(b2, s2, label, kind, line)], line)]
        k = kind if bits != VAR or kind == 'skip' else 'var'
        return [Item(bits, signed, label, k, line)]

    def _nested(self, c: ast.Call, recv: str, m: str, line: int) -> list:
        idx = self.ex.idx
        # super().parse(...) / Base.parse(src, ...) / super().encode_fields(dest)
        target_cls: ClassInfo | None = None
        if recv == 'super()':
            mro = idx.mro(self.f.cls) if self.f.cls else []
            for k in mro[1:]:
                if m in k.methods:
                    target_cls = k
                    break
        elif recv == 'self':
            fm = idx.find_method(self.self_cls, m)
            if fm is not None and fm.cls is not None:
                if fm.qual == self.f.qual:
                    return []
                if any('abstractmethod' in norm(d) for d in fm.node.decorator_list):
                    return [Call(f'self.{m} (subclass hook)', line)]
                return self.ex.extract(fm, self.side, self.self_cls, self.depth + 1)
            return []
        else:
            q = idx.resolve_expr(self.f.module, c.func.value) if isinstance(c.func, ast.Attribute) else None
            if q in idx.classes:
                k = idx.classes[q]
                if self.f.cls is not None and idx.is_subclass(self.self_cls, k.qual) and k is not self.self_cls:
                    target_cls = k
                else:
                    if self.ex.inline_nested and m in k.methods and self.side == 'parse' \
                            and self.depth == 0 and (not self.ex.inline_names
                                                     or k.name in self.ex.inline_names):
                        return self.ex.extract(k.methods[m], self.side, k, self.depth + 1)
                    return [Call(f'{k.name}.{m}', line)]
        if target_cls is not None:
            fm = target_cls.methods.get(m)
            if fm is None:
                return []
            if target_cls.name in ('Mp4Atom', 'Descriptor', 'ObjectWithFields') \
                    and m in ('parse', 'encode'):
                return []       # box header: separate rule
            return self.ex.extract(fm, self.side, self.self_cls, self.depth + 1)
        if m in ('parse_fields', 'parse_payload') and (recv in ('cls', 'clz') or (
                recv[:1].isupper() and idx.resolve_name(self.f.module, recv) is None)):
            return [Call(f'{recv}.{m} (subclass hook)', line)]
        if m in ('encode', 'encode_fields', 'parse', 'load', 'parse_payload', 'parse_fields'):
            return [Call(f'{recv}.{m}', line)]
        return []


# --------------------------------------------------------------------------
# linearisation and comparison
# --------------------------------------------------------------------------
def _same(a, b) -> bool:
    if type(a) is not type(b):
        return False
    if isinstance(a, Item):
        return (a.bits, a.signed, a.kind in ('skip', 'pad'), a.name if a.kind == 'field' else None) == \
               (b.bits, b.signed, b.kind in ('skip', 'pad'), b.name if b.kind == 'field' else None)
    if isinstance(a, Call):
        return a.target == b.target
    if isinstance(a, If):
        return a.cond == b.cond and _same_list(a.then, b.then) and _same_list(a.orelse, b.orelse)
    if isinstance(a, Loop):
        return _same_list(a.body, b.body)
    return True


def _same_list(a: list, b: list) -> bool:
    return len(a) == len(b) and all(_same(x, y) for x, y in zip(a, b))


def _width_same(a, b) -> bool:
    return isinstance(a, Item) and isinstance(b, Item) and a.bits == b.bits and a.bits != VAR


def canon(tree: list) -> list:
    out: list = []
    for n in tree:
        if isinstance(n, Loop):
            out.append(Loop(n.over, canon(n.body), n.line))
            continue
        if not isinstance(n, If):
            out.append(n)
            continue
        then, orelse = canon(n.then), canon(n.orelse)
        if _same_list(then, orelse):
            out.extend(then)
            continue
        # if xs: for x in xs: ..   - an empty sequence makes no iteration, the guard adds nothing
        def all_looped(nodes: list, over: str) -> bool:
            for x in nodes:
                if isinstance(x, Loop):
                    if x.over != over:
                        return False
                elif isinstance(x, If):
                    if not (all_looped(x.then, over) and all_looped(x.orelse, over)):
                        return False
                else:
                    return False
            return True
        if not orelse and then and all_looped(then, n.cond):
            out.extend(then)
            continue
        # hoist a common prefix / suffix of equal width (if d is None: write(I, 0) else write(I, len))
        pre: list = []
        while then and orelse and _width_same(then[0], orelse[0]) and then[0].signed == orelse[0].signed:
            a, b = then.pop(0), orelse.pop(0)
            named = a if (a.kind == 'field' and a.name) else b
            pre.append(Item(a.bits, a.signed, named.name if named.kind == 'field' else None,
                            'field' if 'field' in (a.kind, b.kind) else a.kind, a.line))
        post: list = []
        while then and orelse and _width_same(then[-1], orelse[-1]) and then[-1].signed == orelse[-1].signed:
            a, b = then.pop(), orelse.pop()
            named = a if (a.kind == 'field' and a.name) else b
            post.insert(0, Item(a.bits, a.signed, named.name if named.kind == 'field' else None,
                                'field' if 'field' in (a.kind, b.kind) else a.kind, a.line))
        out.extend(pre)
        if then or orelse:
            if then and orelse and len(then) == len(orelse) and \
                    all(isinstance(x, Item) for x in then + orelse):
                for a, b in zip(then, orelse):
                    if _same(a, b):
                        out.append(a)
                    else:
                        # the wider alternative first, whichever way round the test was written
                        wa = a.bits if isinstance(a.bits, int) else -1
                        wb = b.bits if isinstance(b.bits, int) else -1
                        if wb > wa:
                            out.append(If(negate_cond(n.cond), [b], [a], n.line))
                        else:
                            out.append(If(n.cond, [a], [b], n.line))
            else:
                cond = n.cond
                # canonical arm order when both arms carry something: the arm with more named fields first (then the
                # longer one) - reader and writer may test a presence from opposite sides (`if flag:` / `if x is None:`)
                if then and orelse:
                    def weight(arm: list) -> tuple:
                        fields = bits = 0
                        for x in arm:
                            if isinstance(x, Item):
                                fields += 1 if (x.kind == 'field' and x.name) else 0
                                bits += x.bits if isinstance(x.bits, int) else 0
                            elif isinstance(x, Loop):
                                f_, b_, _n = weight(x.body)
                                fields, bits = fields + f_, bits + b_
                            elif isinstance(x, If):
                                f1, b1, _ = weight(x.then)
                                f2, b2, _ = weight(x.orelse)
                                fields, bits = fields + max(f1, f2), bits + max(b1, b2)
                        return (fields, bits, len(arm))
                    if weight(orelse) > weight(then):
                        cond, then, orelse = negate_cond(cond), orelse, then
                out.append(If(cond, then, orelse, n.line))
        out.extend(post)
    return out


@dataclass
class Leaf:
    guards: tuple[str, ...]
    loops: tuple[str, ...]
    item: object              # Item | Call


def split_and(cond: str) -> tuple[str, ...]:
    try:
        e = ast.parse(cond, mode='eval').body
    except SyntaxError:
        return (cond,)
    if isinstance(e, ast.BoolOp) and isinstance(e.op, ast.And):
        out: tuple[str, ...] = ()
        for v in e.values:
            out += split_and(norm(v))
        return out
    return (cond,)


def linearise(tree: list, guards=(), loops=(), out=None, stop=None) -> list[Leaf]:
    if out is None:
        out = []
    for n in tree:
        if isinstance(n, Item):
            out.append(Leaf(guards, loops, n))
        elif isinstance(n, Call):
            out.append(Leaf(guards, loops, n))
        elif isinstance(n, If):
            linearise(n.then, guards + split_and(n.cond), loops, out)
            neg = negate_cond(n.cond)
            linearise(n.orelse, guards + (neg,), loops, out)
        elif isinstance(n, Loop):
            linearise(n.body, guards, loops + (n.over,), out)
        elif isinstance(n, Ret):
            pass
    return out


def _lossy_const(it: Item) -> bool:
    c = it.const
    if c is None or not isinstance(it.bits, int):
        return False
    if isinstance(c, bytes):
        return any(b != 0 for b in c)
    if isinstance(c, int):
        return c != 0 and c != (1 << it.bits) - 1
    return False


def merge_gaps(leaves: list[Leaf]) -> list[Leaf]:
    out: list[Leaf] = []
    for lf in leaves:
        it = lf.item
        if isinstance(it, Call) and 'subclass hook' in it.target:
            continue
        if out and isinstance(it, Item) and it.kind in ('skip', 'pad') and isinstance(out[-1].item, Item) \
                and out[-1].item.kind == it.kind and out[-1].guards == lf.guards \
                and out[-1].loops == lf.loops and isinstance(it.bits, int) \
                and isinstance(out[-1].item.bits, int):
            prev = out[-1].item
            merged = Item(prev.bits + it.bits, False, None, it.kind, prev.line)
            merged.const = 'lossy' if (_lossy_const(prev) or _lossy_const(it)
                                       or prev.const == 'lossy') else None
            out[-1] = Leaf(lf.guards, lf.loops, merged)
        else:
            out.append(lf)
    return out


@dataclass
class Diff:
    kind: str          # width | sign | order | reader-only | writer-only | guard | loop
    field: str
    detail: str
    line_r: int = 0
    line_w: int = 0


def _names_match(a: Item, b: Item) -> bool:
    if a.name is None or b.name is None:
        return True
    an, bn = a.name.lower(), b.name.lower()
    if an == bn:
        return True
    # num_entries vs sample_count / entry_count, sz vs size ...
    syn = [{'num_entries', 'sample_count', 'entry_count', 'count'}, {'sz', 'size'},
           {'o', 'off', 'offset', 'offsets'}, {'nal_unit_length', 'length', 'len'}]
    for s in syn:
        if an in s and bn in s:
            return True
    return an.rstrip('s') == bn.rstrip('s')


def guard_key(g: tuple[str, ...]) -> frozenset:
    return frozenset(x for x in g)


def compare(reader: list, writer: list) -> tuple[list[Diff], list[str]]:
    """returns (differences, notes)"""
    R = merge_gaps(linearise(canon(reader)))
    W = merge_gaps(linearise(canon(writer)))
    diffs: list[Diff] = []
    notes: list[str] = []
    i = j = 0
    while i < len(R) or j < len(W):
        if i >= len(R):
            w = W[j].item
            if isinstance(w, Item) and w.kind == 'var' and w.name is None:
                j += 1
                continue
            diffs.append(Diff('writer-only', getattr(w, 'name', None) or getattr(w, 'target', '?') or '?',
                              f'the writer emits {w.show() if isinstance(w, Item) else w.target} that '
                              'the reader never consumes', 0, w.line))
            j += 1
            continue
        if j >= len(W):
            r = R[i].item
            if isinstance(r, Item) and r.kind == 'var' and r.name is None:
                i += 1
                continue
            diffs.append(Diff('reader-only', getattr(r, 'name', None) or getattr(r, 'target', '?') or '?',
                              f'the reader consumes {r.show() if isinstance(r, Item) else r.target} that '
                              'the writer never emits', r.line, 0))
            i += 1
            continue
        r, w = R[i].item, W[j].item
        if isinstance(r, Call) or isinstance(w, Call):
            if isinstance(r, Call) and isinstance(w, Call):
                i += 1
                j += 1
                continue
            # one side delegates, the other is in-line: skip the delegate and
            # let the in-line items be reported only if nothing else lines up
            if isinstance(r, Call):
                notes.append(f'reader delegates to {r.target}; writer writes in-line')
                i += 1
                # consume writer items until next alignment is possible
                continue
            notes.append(f'writer delegates to {w.target}; reader reads in-line')
            j += 1
            continue
        # both items
        unnamed_r = r.kind in ('skip',) or r.name is None
        unnamed_w = w.kind in ('pad',) or w.name is None
        # the reader discards a run of fields the writer emits (or the writer replaces a run of
        # fields the reader keeps by constants)
        if r.kind == 'skip' and w.kind == 'field' and isinstance(r.bits, int) \
                and isinstance(w.bits, int) and r.bits > w.bits:
            tot, k, names = 0, j, []
            while k < len(W) and isinstance(W[k].item, Item) and isinstance(W[k].item.bits, int) \
                    and tot < r.bits:
                tot += W[k].item.bits
                names.append(W[k].item.name or '<reserved>')
                k += 1
            if tot == r.bits:
                diffs.append(Diff('discarded', ','.join(names),
                                  f'the reader discards {r.bits} bits where the writer emits the '
                                  f'fields {names}: parsing what was encoded loses them', r.line, w.line))
                i += 1
                j = k
                continue
        if w.kind == 'pad' and r.kind == 'field' and isinstance(r.bits, int) \
                and isinstance(w.bits, int) and w.bits > r.bits:
            tot, k, names = 0, i, []
            while k < len(R) and isinstance(R[k].item, Item) and isinstance(R[k].item.bits, int) \
                    and tot < w.bits:
                tot += R[k].item.bits
                names.append(R[k].item.name or '<reserved>')
                k += 1
            if tot == w.bits:
                diffs.append(Diff('constant', ','.join(names),
                                  f'the writer emits {w.bits} constant bits where the reader keeps the '
                                  f'fields {names}', r.line, w.line))
                j += 1
                i = k
                continue
        if r.kind == 'skip' and w.kind == 'pad' and (w.const == 'lossy' or _lossy_const(w)):
            diffs.append(Diff('lossy', '<reserved>',
                              f'the reader discards {r.bits} bits that the writer regenerates as a '
                              'constant which is neither all-zero nor all-one: values present in the '
                              'input are replaced', r.line, w.line))
        if (unnamed_r and unnamed_w) or _names_match(r, w):
            if r.bits != w.bits:
                if VAR in (r.bits, w.bits):
                    notes.append(f'{r.name or w.name}: fixed vs variable width (not verified)')
                else:
                    diffs.append(Diff('width', r.name or w.name or '<reserved>',
                                      f'reader consumes {r.bits} bits, writer emits {w.bits} bits',
                                      r.line, w.line))
            elif r.signed != w.signed and r.kind == 'field' and w.kind == 'field':
                diffs.append(Diff('sign', r.name or w.name or '?',
                                  f'reader decodes {"signed" if r.signed else "unsigned"}, writer encodes '
                                  f'{"signed" if w.signed else "unsigned"}', r.line, w.line))
            if r.kind == 'skip' and w.kind == 'field':
                notes.append(f'{w.name}: written from a field the reader discards')
            if R[i].loops and not W[j].loops or W[j].loops and not R[i].loops:
                diffs.append(Diff('loop', r.name or w.name or '?',
                                  'one side repeats this item in a loop, the other does not',
                                  r.line, w.line))
            gd = None
            if not (unnamed_r and unnamed_w):
                gd = _guard_diff(R[i].guards, W[j].guards, r, w)
            if gd:
                diffs.append(Diff('guard', r.name or w.name or '?', gd, r.line, w.line))
            i += 1
            j += 1
            continue
        # names differ: look ahead for a resync
        ahead_w = next((k for k in range(j + 1, min(j + 6, len(W)))
                        if isinstance(W[k].item, Item) and _names_match(r, W[k].item)
                        and W[k].item.name is not None), None)
        ahead_r = next((k for k in range(i + 1, min(i + 6, len(R)))
                        if isinstance(R[k].item, Item) and _names_match(R[k].item, w)
                        and R[k].item.name is not None), None)
        if ahead_r is not None and (ahead_w is None or ahead_r - i <= ahead_w - j):
            for k in range(i, ahead_r):
                x = R[k].item
                if isinstance(x, Item):
                    diffs.append(Diff('reader-only', x.name or '<reserved>',
                                      f'the reader consumes {x.show()} here, the writer does not emit it '
                                      'at this position', x.line, w.line))
            i = ahead_r
            continue
        if ahead_w is not None:
            for k in range(j, ahead_w):
                x = W[k].item
                if isinstance(x, Item):
                    diffs.append(Diff('writer-only', x.name or '<reserved>',
                                      f'the writer emits {x.show()} here, the reader does not consume it '
                                      'at this position', r.line, x.line))
            j = ahead_w
            continue
        if r.bits == w.bits:
            notes.append(f'{r.name} / {w.name}: different labels, same width')
        else:
            diffs.append(Diff('order', f'{r.name}/{w.name}',
                              f'reader expects {r.show()} where the writer emits {w.show()}',
                              r.line, w.line))
        i += 1
        j += 1
    return diffs, notes


def _strip(g: str) -> str:
    return g.replace('P_', 'F_')


def _guard_diff(gr: tuple[str, ...], gw: tuple[str, ...], r: Item, w: Item) -> str | None:
    a = {_strip(x) for x in gr}
    b = {_strip(x) for x in gw}
    if a == b:
        return None
    only_r = a - b
    only_w = b - a
    # presence linkage: writer tests the field itself
    name = (w.name or r.name or '')
    pres = {f'F_{name} is not None', f'F_{name}', f"'{name}' in F__fields",
            f'F_{name} is not None and F_{name}', f'not (F_{name} is None)'}
    only_w2 = {g for g in only_w if g not in pres and not any(p in g for p in (f'F_{name} is not None',))
               and not re.fullmatch(r"'\w+' in F__fields", g)}
    if only_w and not only_w2:
        return None          # presence linkage: the writer emits the field iff it holds a value
    # reader-side tolerance guards (size checks, None defaults) are not writer obligations
    only_r2 = {g for g in only_r if not re.search(r'\bsize\b|is None|is not None|F_version == 0 or', g)}
    if only_w - only_w2 and not only_r2 and not only_w2:
        return None
    if not only_r2 and not only_w2:
        return None
    # derived flags: (reader) F_flags & K  vs (writer) F_x is not None  -> linkage accepted when
    # the writer sets the flag itself; cannot be seen here -> reported as unverified note by caller
    return (f'emitted when [{" and ".join(sorted(b)) or "always"}] but consumed when '
            f'[{" and ".join(sorted(a)) or "always"}]')


def show_tree(tree: list, indent: int = 0) -> list[str]:
    out = []
    pad = '  ' * indent
    for n in tree:
        if isinstance(n, Item):
            out.append(pad + n.show())
        elif isinstance(n, Call):
            out.append(pad + f'call {n.target}')
        elif isinstance(n, If):
            out.append(pad + f'if {n.cond}:')
            out += show_tree(n.then, indent + 1)
            if n.orelse:
                out.append(pad + 'else:')
                out += show_tree(n.orelse, indent + 1)
        elif isinstance(n, Loop):
            out.append(pad + f'loop {n.over}:')
            out += show_tree(n.body, indent + 1)
        elif isinstance(n, Ret):
            out.append(pad + 'return')
    return out

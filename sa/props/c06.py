"""C06 - static manifests describe stored media (conventions only).

R06.1  inclusive byte-range convention agrees between the writer
       (generateSegmentList: end = pos + size - 1) and both readers.
R06.2  the declared static duration comes from the timing reference only.
R06.3  out-of-range numbers are refused on every path of
       LiveMedia.calculate_media_segment_index, and the refusal is a 404.
"""
from __future__ import annotations

import ast
import re

from ..core import (AnalysisError, Report, call_name, find_class, find_func, need, norm, short)
from ..flow import Flow, MustFacts
from .c13 import linear

REP = 'dashlive/mpeg/dash/representation.py'
TIMING = 'dashlive/mpeg/dash/timing.py'
MR = 'dashlive/server/requesthandler/media_requests.py'
MC = 'dashlive/server/requesthandler/manifest_context.py'


def lin_attr(e: ast.AST):
    """linear form over dotted names"""
    from .c20 import lin
    return lin(e)


def _init_then_media(fn: ast.AST) -> bool:
    """the first range goes to `.init`, every other one to `.media`: accepted forms
    (a) in the loop: `if <first>: X.init = sp  else: X.media.append(sp)`
    (b) `head, *tail = ranges` / `ranges[0]`, `ranges[1:]` given as init= / media="""
    for n in ast.walk(fn):
        if isinstance(n, ast.If) and n.orelse:
            def has_init(b):
                return any(isinstance(x, ast.Assign) and norm(x.targets[0]).endswith('.init') for s in b
                           for x in ast.walk(s))

            def has_media(b):
                return any(isinstance(x, ast.Call) and (call_name(x) or '').endswith('.media.append') for s in b
                           for x in ast.walk(s))
            if has_init(n.body) and has_media(n.orelse) and not has_media(n.body) and not has_init(n.orelse):
                return True
            if has_init(n.orelse) and has_media(n.body) and not has_media(n.orelse) and not has_init(n.body):
                return True
    # (c) assigned as attributes: `X.init = R[0]` and `X.media = R[1:]` (or `X.media.extend(R[1:])`) for one list R
    inits = {norm(a.value) for a in ast.walk(fn) if isinstance(a, ast.Assign) and norm(a.targets[0]).endswith('.init')}
    medias = {norm(a.value) for a in ast.walk(fn) if isinstance(a, ast.Assign) and norm(a.targets[0]).endswith('.media')}
    medias |= {norm(c_.args[0]) for c_ in ast.walk(fn) if isinstance(c_, ast.Call) and (call_name(c_) or '').endswith('.media.extend')
               and len(c_.args) == 1}
    for i_ in inits:
        m_ = re.fullmatch(r'(\w+)\[0\]', i_)
        if m_ and f'{m_.group(1)}[1:]' in medias and len(medias) == 1:
            return True
    head = tail = None
    for n in ast.walk(fn):
        if isinstance(n, ast.Assign) and isinstance(n.targets[0], (ast.Tuple, ast.List)):
            e = n.targets[0].elts
            if len(e) == 2 and isinstance(e[0], ast.Name) and isinstance(e[1], ast.Starred):
                head, tail = e[0].id, norm(e[1].value)
    for n in ast.walk(fn):
        if isinstance(n, ast.Call):
            kw = {k.arg: norm(k.value) for k in n.keywords if k.arg}
            if 'init' in kw and 'media' in kw:
                if head and kw['init'] == head and kw['media'] == tail:
                    return True
                m = re.fullmatch(r'(\w+)\[0\]', kw['init'])
                if m and kw['media'] == f'{m.group(1)}[1:]':
                    return True
                # init = ranges[0] if there are any (else a default), media = ranges[1:]
                m2 = re.fullmatch(r'(\w+)\[1:\]', kw['media'])
                if m2 and re.fullmatch(r'\w+', kw['init']):
                    defs = [norm(a.value) for a in ast.walk(fn) if isinstance(a, (ast.Assign, ast.AnnAssign))
                            and getattr(a, 'value', None) is not None
                            and norm(a.targets[0] if isinstance(a, ast.Assign) else a.target) == kw['init']]
                    if f'{m2.group(1)}[0]' in defs and all(
                            d == f'{m2.group(1)}[0]' or d.startswith('SegmentPosition(') for d in defs):
                        return True
    return False


def r06_1(rep: Report) -> None:
    rid = 'R06.1'
    tree = rep.repo.tree(REP)
    cls = need(find_class(tree, 'Representation'), 'Representation')
    fn = need(find_func(cls, 'generateSegmentList'), 'generateSegmentList')
    c = f'{REP}::Representation.generateSegmentList'
    from ..core import subst_locals
    # iteration over the stored fragments, in stored order
    iters: list[tuple[str, ast.AST]] = []
    for n in ast.walk(fn):
        if isinstance(n, (ast.For, ast.comprehension)) and 'self.segments' in norm(n.iter):
            it, tgt = n.iter, n.target
            if isinstance(it, ast.Call) and call_name(it) == 'enumerate' and isinstance(tgt, ast.Tuple) \
                    and len(tgt.elts) == 2:
                it, tgt = it.args[0], tgt.elts[1]
            if norm(it) != 'self.segments' or not isinstance(tgt, ast.Name):
                rep.fail(rid, c, 'ranges enumerate self.segments in stored order',
                         f'`{norm(n.iter)}`: SegmentList no longer walks the stored fragments in order', n)
                continue
            iters.append((tgt.id, n))
    if not iters:
        raise AnalysisError('generateSegmentList: no iteration over self.segments')
    vs = [v for v, _ in iters]
    # every non-constant SegmentPosition is (v.pos, v.pos + v.size - 1)
    sps = []
    for n in ast.walk(fn):
        if isinstance(n, ast.Call) and (call_name(n) or '').split('.')[-1] == 'SegmentPosition':
            args = {('start', 'end')[i]: a for i, a in enumerate(n.args[:2])}
            args.update({k.arg: k.value for k in n.keywords if k.arg})
            if all(isinstance(x, ast.Constant) for x in args.values()):
                continue
            sps.append((n, args))
    if not sps:
        raise AnalysisError('generateSegmentList: no SegmentPosition built from a fragment')
    for n, args in sps:
        st = lin_attr(subst_locals(fn, args['start'])) if 'start' in args else None
        en = lin_attr(subst_locals(fn, args['end'])) if 'end' in args else None
        if any(en == {f'{v}.pos': 1, f'{v}.size': 1, '': -1} for v in vs):
            rep.ok(rid, c, 'end = pos + size - 1')
        else:
            rep.fail(rid, c, 'end = pos + size - 1',
                     f'`{norm(n)}` (end = {norm(subst_locals(fn, args["end"])) if "end" in args else "?"}): '
                     'the last byte of a segment is pos + size - 1 (inclusive range); '
                     'any other value makes SegmentList ranges overlap or leave gaps', n)
        if any(st == {f'{v}.pos': 1} for v in vs):
            rep.ok(rid, c, 'SegmentPosition(start=seg.pos, end=end)')
        else:
            rep.fail(rid, c, 'SegmentPosition(start=seg.pos, end=end)',
                     f'`{norm(n)}`: range start is not the segment position', n)
    # first element is the init range, the rest media ranges
    if _init_then_media(fn):
        rep.ok(rid, c, 'init range then media ranges in stored order')
    else:
        rep.fail(rid, c, 'init range then media ranges in stored order',
                 'the first stored fragment is not the init range followed by the others as media ranges', fn)
    # template renders start-end with a dash
    src = rep.repo.source('templates/segment/list.xml')
    if 'range="{{segList.init.start}}-{{segList.init.end}}"' in src and \
            'mediaRange="{{seg.start}}-{{seg.end}}"' in src:
        rep.ok(rid, 'templates/segment/list.xml', 'start-end rendering')
    else:
        rep.fail(rid, 'templates/segment/list.xml', 'start-end rendering',
                 'SegmentList template does not render `start-end`')
    # default end of an open range is length - 1 (reader side, base.get_http_range)
    base = rep.repo.tree('dashlive/server/requesthandler/base.py')
    g = need(find_func(need(find_class(base, 'RequestHandlerBase'), 'RequestHandlerBase'),
                       'get_http_range'), 'get_http_range')
    L = g.args.args[1].arg
    # role: the range end is the second component of the tuples the function returns; every value
    # assigned to it (directly, or element-wise in a tuple assignment, or through one local copy) that
    # depends on the length alone is a default end
    from ..core import subst_locals
    end_names: set[str] = set()
    for r_ in ast.walk(g):
        if isinstance(r_, ast.Return) and isinstance(r_.value, ast.Tuple) and len(r_.value.elts) == 4 \
                and isinstance(r_.value.elts[1], ast.Name):
            end_names.add(r_.value.elts[1].id)
    if not end_names:
        raise AnalysisError('get_http_range: no `return (start, end, status, headers)` with a named end')
    pairs: list[tuple[ast.AST, ast.AST]] = []
    for n in ast.walk(g):
        if isinstance(n, ast.AnnAssign) and n.value is not None and isinstance(n.target, ast.Name) \
                and n.target.id in end_names:
            pairs.append((n, n.value))
        elif isinstance(n, ast.Assign):
            for t in n.targets:
                if isinstance(t, ast.Name) and t.id in end_names:
                    pairs.append((n, n.value))
                elif isinstance(t, (ast.Tuple, ast.List)) and isinstance(n.value, (ast.Tuple, ast.List)) \
                        and len(t.elts) == len(n.value.elts):
                    for te, ve in zip(t.elts, n.value.elts):
                        if isinstance(te, ast.Name) and te.id in end_names:
                            pairs.append((n, ve))
    forms = [(n, linear(subst_locals(g, v))) for n, v in pairs]
    defaults = [(n, f) for n, f in forms if f is not None and set(f) <= {L, ''} and L in f]
    gc = 'dashlive/server/requesthandler/base.py::RequestHandlerBase.get_http_range'
    if defaults and all(f == {L: 1, '': -1} for _n, f in defaults):
        rep.ok(rid, gc, 'open range ends at length - 1', f'{len(defaults)} default end(s)')
    else:
        bad = [norm(n) for n, f in defaults if f != {L: 1, '': -1}]
        rep.fail(rid, gc, 'open range ends at length - 1',
                 f'an open-ended / suffix range does not end at {L} - 1 ({bad or "no default end found"})', g)


def r06_2(rep: Report) -> None:
    rid = 'R06.2'
    tree = rep.repo.tree(TIMING)
    cls = need(find_class(tree, 'DashTiming'), 'DashTiming')
    fn = need(find_func(cls, 'calculate_vod_params'), 'calculate_vod_params')
    c = f'{TIMING}::DashTiming.calculate_vod_params'
    a = [n for n in ast.walk(fn) if isinstance(n, ast.Assign) and norm(n.targets[0]) == 'self.mediaDuration']
    from ..core import subst_locals
    if len(a) == 1 and norm(subst_locals(fn, a[0].value)) == (
            'timecode_to_timedelta(self.stream_reference.media_duration, self.stream_reference.timescale)'):
        rep.ok(rid, c, 'mediaDuration = reference duration / timescale')
    else:
        rep.fail(rid, c, 'mediaDuration = reference duration / timescale',
                 'the static duration is not derived from the timing reference alone: '
                 f'{[norm(x) for x in a]}', fn)
    gm = need(find_func(cls, 'generate_manifest_context'), 'generate_manifest_context')
    if 'mediaDuration=self.mediaDuration' in norm(gm):
        rep.ok(rid, f'{TIMING}::DashTiming.generate_manifest_context', 'static context carries it')
    else:
        rep.fail(rid, f'{TIMING}::DashTiming.generate_manifest_context', 'static context carries it',
                 'the static manifest timing context does not carry self.mediaDuration', gm)
    mt = rep.repo.tree(MC)
    mcls = need(find_class(mt, 'ManifestContext'), 'ManifestContext')
    ut = need(find_func(mcls, 'update_timing'), 'update_timing')
    sets = [n for n in ast.walk(ut) if isinstance(n, ast.Assign) and norm(n.targets[0]) == 'self.mediaDuration']
    def _src(e: ast.AST) -> str:
        """the value with single-definition locals resolved and typing.cast(T, x) read as x"""
        from ..core import subst_locals as _sl
        from ..normalise import clone as _clone

        class _Uncast(ast.NodeTransformer):
            def visit_Call(self, node):
                self.generic_visit(node)
                if (call_name(node) or '').split('.')[-1] == 'cast' and len(node.args) == 2:
                    return node.args[1]
                return node
        cur = _clone(e)
        for _ in range(3):
            cur = _Uncast().visit(_sl(ut, cur, allow_calls=True))
        return norm(cur)
    tparam = ut.args.args[1].arg if len(ut.args.args) > 1 else 'timing'
    if sets and all(_src(s.value) == f'{tparam}.generate_manifest_context().mediaDuration' for s in sets):
        rep.ok(rid, f'{MC}::ManifestContext.update_timing', 'mpd.mediaDuration = timing context')
    else:
        rep.fail(rid, f'{MC}::ManifestContext.update_timing', 'mpd.mediaDuration = timing context',
                 'mpd.mediaDuration is not taken from the static timing context', ut)
    # every static template renders mediaPresentationDuration from mpd.mediaDuration
    import re
    n = 0
    for f in rep.repo.files('templates/manifests', ('.mpd',)):
        src = rep.repo.source(f)
        for m in re.finditer(r'mediaPresentationDuration="\{\{\s*([^}|]+?)\s*\|\s*(\w+)\s*\}\}"', src):
            n += 1
            if m.group(1) == 'mpd.mediaDuration' and m.group(2) == 'isoDuration':
                rep.ok(rid, f, 'mediaPresentationDuration from mpd.mediaDuration')
            else:
                rep.fail(rid, f, 'mediaPresentationDuration from mpd.mediaDuration',
                         f'mediaPresentationDuration is rendered from `{m.group(1)}|{m.group(2)}`')
    if n < 8:
        raise AnalysisError('mediaPresentationDuration attributes not found in the templates')


def r06_3(rep: Report) -> None:
    rid = 'R06.3'
    tree = rep.repo.tree(MR)
    cls = need(find_class(tree, 'LiveMedia'), 'LiveMedia')
    fn = need(find_func(cls, 'calculate_media_segment_index'), 'calculate_media_segment_index')
    c = f'{MR}::LiveMedia.calculate_media_segment_index'

    # roles: (F, L) receive calculate_first_and_last_segment_number(), N the computed segment number
    from ..absint import Zone, ZoneDomain, proves_le
    from ..flow import Disjunctive, each_exit
    from ..core import subst_locals
    F = L = N = None
    for n in ast.walk(fn):
        if isinstance(n, ast.Assign) and isinstance(n.value, ast.Call) and isinstance(n.targets[0], ast.Tuple):
            cn = call_name(n.value) or ''
            names = [e.id if isinstance(e, ast.Name) else None for e in n.targets[0].elts]
            if cn.endswith('calculate_first_and_last_segment_number') and len(names) == 2:
                F, L = names
            elif cn.endswith('calculate_segment_number_and_time') and len(names) == 3:
                N = names[0]
    if not (F and L and N):
        raise AnalysisError('calculate_media_segment_index: first/last/number roles not found')
    zd = ZoneDomain(attr_roots=('self',))
    verdicts: list[tuple[bool, ast.AST, str]] = []
    raises: list[ast.AST] = []

    def on_exit(kind, st, z):
        if kind == 'raise' and st is not None:
            raises.append(st)
        if kind not in ('return', 'fall'):
            return
        fn_, ln_, nn_ = (ast.Name(id=x, ctx=ast.Load()) for x in (F, L, N))
        ok_ = proves_le(zd, z, fn_, nn_) and proves_le(zd, z, nn_, ln_)
        verdicts.append((ok_, st, z.describe([F, L, N])))
    Flow(Disjunctive(zd, cap=256), on_exit=each_exit(on_exit)).run(fn, [Zone()])
    if not verdicts:
        raise AnalysisError('calculate_media_segment_index: no normal exit')
    badv = [v for v in verdicts if not v[0]]
    if not badv:
        rep.ok(rid, c, 'first <= seg_num <= last on every normal return', f'{len(verdicts)} return path(s)')
    else:
        rep.fail(rid, c, 'first <= seg_num <= last on every normal return',
                 f'a path returns a segment position without implying {F} <= {N} <= {L} '
                 f'(known: {badv[0][2][:100]}): a number outside the listed range is served', badv[0][1] or fn)
    handlers = {id(x) for h in ast.walk(fn) if isinstance(h, ast.ExceptHandler) for x in ast.walk(h)}
    own = [r for r in ast.walk(fn) if isinstance(r, ast.Raise) and id(r) not in handlers]
    if own and all(r.exc is not None and 'ValueError' in norm(r.exc) for r in own):
        rep.ok(rid, c, 'refusal raises ValueError (-> 404 in the caller)')
    else:
        rep.fail(rid, c, 'refusal raises ValueError (-> 404 in the caller)',
                 'the out-of-range branch does not raise ValueError', own[0] if own else fn)
    # first/last for static modes: start_number .. start_number + n - 1
    rt = rep.repo.tree(REP)
    rcls = need(find_class(rt, 'Representation'), 'Representation')
    fl = need(find_func(rcls, 'calculate_first_and_last_segment_number'), 'first_and_last')
    c2 = f'{REP}::Representation.calculate_first_and_last_segment_number'
    from ..pathcond import PathCond, entails as pc_entails, f_not, sym_values
    from .c20 import lin
    upd, resolve = sym_values()
    pcd = PathCond(subst={'timing': 'self._timing'}, upd=upd)
    static_rets: list[tuple[ast.Return, ast.AST]] = []
    live_atoms = ("timing.mode == 'live'", "self._timing.mode == 'live'", "'live' == timing.mode")

    def on_ret(kind, st, state):
        if kind != 'return' or st.value is None:
            return
        pc = state[0]
        if any(pc_entails(pc, f_not(('atom', t))) is True for t in live_atoms) or \
                any(pc_entails(pc, ('atom', t)) is True for t in
                    ("timing.mode != 'live'", "self._timing.mode != 'live'")):
            static_rets.append((st, resolve(state, st.value)))
    Flow(Disjunctive(pcd, cap=128), on_exit=each_exit(on_ret)).run(
        fl, [PathCond.initial()])
    if not static_rets:
        raise AnalysisError('calculate_first_and_last_segment_number: static branch not found')
    for r, v in static_rets:
        elts = v.elts if isinstance(v, ast.Tuple) else []
        if len(elts) == 2 and lin(elts[0]) == {'self.start_number': 1} and \
                lin(elts[1]) == {'self.num_media_segments': 1, 'self.start_number': 1, '': -1}:
            rep.ok(rid, c2, 'static range is startNumber .. startNumber + N - 1')
        else:
            rep.fail(rid, c2, 'static range is startNumber .. startNumber + N - 1',
                     f'static first/last is {norm(v)}', r)


# ---------------------------------------------------------------- R06.4 indexer running clock
# One iteration of the indexer's moof branch is evaluated over linear forms in E0 (running end
# before the fragment), D (sum of the fragment's sample durations) and T (the fragment's tfdt).  The
# summation loop `for sample in ...trun.samples: X += sample.duration` is the single step X += D.
def _lin_eval(e: ast.AST, env: dict) -> dict | None:
    if isinstance(e, ast.Constant) and isinstance(e.value, int) and not isinstance(e.value, bool):
        return {'1': e.value} if e.value else {}
    t = norm(e)
    if t.endswith('base_media_decode_time'):
        return {'T': 1}
    if isinstance(e, ast.Call) and norm(e.func) == 'sum' and len(e.args) == 1 \
            and isinstance(e.args[0], (ast.GeneratorExp, ast.ListComp)):
        g = e.args[0]
        if len(g.generators) == 1 and not g.generators[0].ifs \
                and norm(g.elt) == f'{norm(g.generators[0].target)}.duration':
            return {'D': 1}
    if t in env:
        v = env[t]
        return dict(v) if v is not None else None
    if isinstance(e, ast.BinOp) and isinstance(e.op, (ast.Add, ast.Sub)):
        a, b = _lin_eval(e.left, env), _lin_eval(e.right, env)
        if a is None or b is None:
            return None
        sg = 1 if isinstance(e.op, ast.Add) else -1
        out = dict(a)
        for k, v in b.items():
            out[k] = out.get(k, 0) + sg * v
        return {k: v for k, v in out.items() if v}
    return None


def _fmt(v: dict | None) -> str:
    if v is None:
        return '?'
    if not v:
        return '0'
    return ' + '.join((k if c == 1 else f'{c}*{k}') if k != '1' else str(c) for k, c in sorted(v.items()))


def _run_block(stmts: list[ast.stmt], envs: list[tuple[dict, tuple]], tracked: set[str]) -> list[tuple[dict, tuple]]:
    for st in stmts:
        nxt: list[tuple[dict, tuple]] = []
        for env, path in envs:
            if isinstance(st, ast.If):
                lab = norm(st.test)
                a = _run_block(st.body, [(dict(env), path + ((lab, True),))], tracked)
                b = _run_block(st.orelse, [(dict(env), path + ((lab, False),))], tracked)
                nxt.extend(a + b)
                continue
            if isinstance(st, ast.For):
                sums = [x for x in ast.walk(st) if isinstance(x, ast.AugAssign) and isinstance(x.op, ast.Add)
                        and norm(x.value) == f'{norm(st.target)}.duration']
                env = dict(env)
                touched = {norm(x.target) for x in ast.walk(st) if isinstance(x, ast.AugAssign)} | \
                          {norm(t) for x in ast.walk(st) if isinstance(x, ast.Assign) for t in x.targets}
                if norm(st.iter).endswith('trun.samples') or norm(st.iter) in env.get('#samples', ()):
                    for x in sums:
                        tn = norm(x.target)
                        if tn in tracked:
                            cur = env.get(tn)
                            env[tn] = None if cur is None else {
                                k: v for k, v in {**cur, 'D': cur.get('D', 0) + 1}.items() if v}
                            touched.discard(tn)
                for tn in touched & tracked:
                    env[tn] = None
                nxt.append((env, path))
                continue
            if isinstance(st, ast.Try):
                nxt.extend(_run_block(st.body, [(dict(env), path)], tracked))
                continue
            env = dict(env)
            if isinstance(st, ast.Assign) and len(st.targets) == 1 and norm(st.value).endswith('trun.samples'):
                env['#samples'] = tuple(env.get('#samples', ())) + (norm(st.targets[0]),)
            if isinstance(st, ast.AnnAssign) and st.value is not None and norm(st.target) in tracked:
                env[norm(st.target)] = _lin_eval(st.value, env)
            elif isinstance(st, ast.Assign) and len(st.targets) == 1 and norm(st.targets[0]) in tracked:
                env[norm(st.targets[0])] = _lin_eval(st.value, env)
            elif isinstance(st, ast.AugAssign) and norm(st.target) in tracked:
                cur = env.get(norm(st.target))
                add = _lin_eval(st.value, env)
                if cur is None or add is None or not isinstance(st.op, (ast.Add, ast.Sub)):
                    env[norm(st.target)] = None
                else:
                    sg = 1 if isinstance(st.op, ast.Add) else -1
                    out = dict(cur)
                    for k, v in add.items():
                        out[k] = out.get(k, 0) + sg * v
                    env[norm(st.target)] = {k: v for k, v in out.items() if v}
            else:
                for x in ast.walk(st):
                    if isinstance(x, (ast.Assign, ast.AugAssign, ast.AnnAssign)):
                        for t in (x.targets if isinstance(x, ast.Assign) else [x.target]):
                            if norm(t) in tracked:
                                env[norm(t)] = None
            nxt.append((env, path))
        envs = nxt
    return envs


def r06_4(rep: Report) -> None:
    """the indexer's running clock: a fragment without a tfdt starts where the previous one ended,
    a fragment with one starts at its tfdt; either way it ends at start + the sum of its sample
    durations, and that sum is its stored duration.  (The decode times the manifests advertise and
    the $Time$ lookup both come from these three assignments.)"""
    rid = 'R06.4'
    tree = rep.repo.tree(REP)
    cls = need(find_class(tree, 'Representation'), 'Representation')
    fn = need(find_func(cls, 'load'), 'Representation.load')
    construct = f'{REP}::Representation.load'
    branch = None
    for n in ast.walk(fn):
        if isinstance(n, ast.If) and norm(n.test) == "atom.atom_type == 'moof'":
            branch = n
    if branch is None:
        raise AnalysisError("Representation.load: the `atom.atom_type == 'moof'` branch was not found")
    # roles by data flow, not by name: S is what receives the tfdt decode time, E what S is copied from
    # when there is no tfdt
    S = E = None
    # the start is what the representation's own start time is taken from; failing that, what receives
    # the tfdt decode time
    for n in ast.walk(branch):
        if isinstance(n, ast.Assign) and len(n.targets) == 1 and isinstance(n.targets[0], ast.Name) \
                and isinstance(n.value, ast.Name) and 'representation_start' in n.targets[0].id:
            S = n.value.id
    for n in ast.walk(branch):
        if S is None and isinstance(n, ast.Assign) and len(n.targets) == 1 and isinstance(n.targets[0], ast.Name) \
                and norm(n.value).endswith('base_media_decode_time'):
            S = n.targets[0].id
    if S is None:
        raise AnalysisError('Representation.load: no variable receives the tfdt decode time')
    for n in ast.walk(branch):
        if isinstance(n, ast.Assign) and len(n.targets) == 1 and norm(n.targets[0]) == S \
                and isinstance(n.value, ast.Name):
            E = n.value.id
    if E is None:
        raise AnalysisError(f'Representation.load: `{S}` is never taken from a running end time')
    names = {n.id for n in ast.walk(branch) if isinstance(n, ast.Name) and isinstance(n.ctx, ast.Store)}
    tracked = names | {'seg.duration'}
    env0 = {k: None for k in tracked}
    env0[E] = {'E0': 1}
    env0[S] = {'S0': 1}
    outs = _run_block(branch.body, [(env0, ())], tracked)
    seen = set()
    for env, path in outs:
        start, end_, sdur = env.get(S), env.get(E), env.get('seg.duration')
        # which kind of fragment the path is about: by the test for the tfdt box it went through, else by
        # the value the start was given
        label = None
        for lab, truth in path:
            if 'tfdt' in lab and lab.endswith(' is None'):
                label = 'no tfdt' if truth else 'tfdt'
            elif 'tfdt' in lab and lab.endswith(' is not None'):
                label = 'tfdt' if truth else 'no tfdt'
        if label is None:
            if start == {'T': 1}:
                label = 'tfdt'
            elif start is not None and 'E0' in start:
                label = 'no tfdt'
            else:
                continue
        no_tfdt = label == 'no tfdt'
        if label in seen:
            continue
        seen.add(label)
        want_start = {'E0': 1} if no_tfdt else {'T': 1}
        want_end = {**want_start, 'D': 1}
        for what, got, want in (('start', start, want_start), ('end', end_, want_end), ('duration', sdur, {'D': 1})):
            key = f'{label}: {what}'
            if got is None:
                rep.note(f'R06.4: {key} has a form the evaluator does not follow - not decided')
                rep.ok(rid, construct, key, 'not decided')
            elif got == want:
                rep.ok(rid, construct, key, f'{what} = {_fmt(got)}')
            else:
                rep.fail(rid, construct, key,
                         f'for a fragment with {label} the indexer leaves segment {what} = {_fmt(got)} '
                         f'(E0: end of the previous fragment, D: this fragment\'s sample durations, T: its '
                         f'tfdt); it must be {_fmt(want)}: the indexed start time and segment duration '
                         'no longer describe the stored fragments', branch)
    if seen != {'no tfdt', 'tfdt'}:
        raise AnalysisError(f'Representation.load: tfdt / no-tfdt paths not both found ({sorted(seen)})')


def r06_12(rep: Report) -> None:
    """the stored media duration is the sum of the durations of the media fragments - `segments[1:]`, the init
    segment excluded - wherever Representation computes it (the indexer, and the constructor when the stored
    index has none).  A duration taken from decode times (`start of the last fragment + its duration`) is only
    the same number for a file that starts at decode time 0 without gaps.  The statements of the block that
    assigns `.mediaDuration` are evaluated over linear forms; a summing loop / sum() over `segments[1:]` is the
    symbol D, any other sub-expression is a symbol of its own text."""
    rid = 'R06.12'
    tree = rep.repo.tree(REP)
    cls = need(find_class(tree, 'Representation'), 'Representation')
    DSUM = 'sum(duration of segments[1:])'

    def seg_slice(e: ast.AST) -> bool:
        return isinstance(e, ast.Subscript) and isinstance(e.value, ast.Attribute) and e.value.attr == 'segments' \
            and isinstance(e.slice, ast.Slice) and e.slice.upper is None and e.slice.step is None \
            and isinstance(e.slice.lower, ast.Constant) and e.slice.lower.value == 1

    def lin(e: ast.AST, env: dict) -> dict:
        if isinstance(e, ast.Call) and norm(e.func) == 'sum' and len(e.args) == 1 \
                and isinstance(e.args[0], (ast.GeneratorExp, ast.ListComp)):
            g = e.args[0]
            if len(g.generators) == 1 and not g.generators[0].ifs and seg_slice(_through(g.generators[0].iter, env)) \
                    and norm(g.elt) == f'{norm(g.generators[0].target)}.duration':
                return {DSUM: 1}
            it_ = _through(g.generators[0].iter, env)
            if len(g.generators) == 1 and norm(g.elt) == f'{norm(g.generators[0].target)}.duration' \
                    and 'segments' in norm(it_) and not any(isinstance(x, ast.Call) for x in ast.walk(it_)):
                return {f'durations of {norm(it_)}' + (' (filtered)' if g.generators[0].ifs else '').replace('(', '<').replace(')', '>'): 1}
        if isinstance(e, ast.Constant) and isinstance(e.value, int) and not isinstance(e.value, bool):
            return {'1': e.value} if e.value else {}
        t = norm(e)
        if t in env:
            return dict(env[t])
        if isinstance(e, ast.BinOp) and isinstance(e.op, (ast.Add, ast.Sub)):
            a, b = lin(e.left, env), lin(e.right, env)
            sg = 1 if isinstance(e.op, ast.Add) else -1
            out = dict(a)
            for k, v in b.items():
                out[k] = out.get(k, 0) + sg * v
            return {k: v for k, v in out.items() if v}
        return {t: 1}

    def _through(e: ast.AST, env: dict) -> ast.AST:
        """a local that names the slice: earlier = x.segments[1:]"""
        if isinstance(e, ast.Name) and ('@' + e.id) in env:
            return env['@' + e.id]
        return e

    def run(stmts: list[ast.stmt], env: dict) -> None:
        for st in stmts:
            if isinstance(st, ast.Assign) and len(st.targets) == 1:
                if isinstance(st.targets[0], ast.Name) and seg_slice(st.value):
                    env['@' + st.targets[0].id] = st.value
                env[norm(st.targets[0])] = lin(st.value, env)
            elif isinstance(st, ast.AnnAssign) and st.value is not None:
                env[norm(st.target)] = lin(st.value, env)
            elif isinstance(st, ast.AugAssign) and isinstance(st.op, (ast.Add, ast.Sub)):
                cur = env.get(norm(st.target), {norm(st.target): 1})
                add = lin(st.value, env)
                sg = 1 if isinstance(st.op, ast.Add) else -1
                out = dict(cur)
                for k, v in add.items():
                    out[k] = out.get(k, 0) + sg * v
                env[norm(st.target)] = {k: v for k, v in out.items() if v}
            elif isinstance(st, ast.For) and seg_slice(_through(st.iter, env)) and not st.orelse:
                tv = norm(st.target)
                copies = {norm(b_.targets[0]) for b_ in st.body if isinstance(b_, ast.Assign) and len(b_.targets) == 1
                          and isinstance(b_.targets[0], ast.Name) and norm(b_.value) == f'{tv}.duration'}
                for b_ in st.body:
                    if isinstance(b_, ast.Assign) and len(b_.targets) == 1 and norm(b_.targets[0]) in copies:
                        continue            # value = seg.duration (what an inlined summing helper leaves)
                    if isinstance(b_, ast.AugAssign) and isinstance(b_.op, ast.Add) and (
                            norm(b_.value) == f'{tv}.duration' or norm(b_.value) in copies):
                        cur = env.get(norm(b_.target), {norm(b_.target): 1})
                        env[norm(b_.target)] = {k: v for k, v in {**cur, DSUM: cur.get(DSUM, 0) + 1}.items() if v}
                    else:
                        for x in ast.walk(b_):
                            if isinstance(x, (ast.Assign, ast.AugAssign, ast.AnnAssign)):
                                for t_ in (x.targets if isinstance(x, ast.Assign) else [x.target]):
                                    env[norm(t_)] = {f'?{norm(t_)}': 1}
            else:
                for x in ast.walk(st):
                    if isinstance(x, (ast.Assign, ast.AugAssign, ast.AnnAssign)):
                        for t_ in (x.targets if isinstance(x, ast.Assign) else [x.target]):
                            env[norm(t_)] = {f'?{norm(t_)}': 1}

    def blocks(node: ast.AST):
        for n in ast.walk(node):
            for f_ in ('body', 'orelse', 'finalbody'):
                blk = getattr(n, f_, None)
                if isinstance(blk, list) and blk and isinstance(blk[0], ast.stmt):
                    yield blk
    sites = 0
    for fn in [m for m in cls.body if isinstance(m, ast.FunctionDef)]:
        fn = find_func(cls, fn.name) or fn
        for blk in blocks(fn):
            tgts = [st for st in blk if isinstance(st, (ast.Assign, ast.AugAssign))
                    and any(isinstance(t_, ast.Attribute) and t_.attr == 'mediaDuration'
                            for t_ in (st.targets if isinstance(st, ast.Assign) else [st.target]))]
            if not tgts:
                continue
            tname = norm(tgts[0].targets[0] if isinstance(tgts[0], ast.Assign) else tgts[0].target)
            env: dict = {}
            run(blk, env)
            got = env.get(tname)
            sites += 1
            construct = f'{REP}::Representation.{fn.name}'
            if got == {DSUM: 1}:
                rep.ok(rid, construct, 'mediaDuration', 'sum of the durations of segments[1:]')
            elif got is not None and any('(' in k and k != DSUM for k in got):
                raise AnalysisError(f'Representation.{fn.name}: mediaDuration = {_fmt(got)[:120]} - a form this rule does not follow')
            else:
                rep.fail(rid, construct, 'mediaDuration',
                         f'the stored media duration is `{_fmt(got)[:140]}`; it must be the sum of the durations of the '
                         'media fragments (segments[1:]): decode times say where fragments lie, not how much media there '
                         'is - a file whose first fragment does not start at 0, or with gaps, gets a duration (and a '
                         'static SegmentTimeline, bitrate and presentation duration) that is too long', tgts[0])
    if sites < 2:
        raise AnalysisError(f'Representation: only {sites} place(s) compute mediaDuration (constructor and indexer expected)')


def _lin2(e: ast.AST, env: dict) -> dict:
    """linear form where every non-linear sub-expression is an opaque symbol (its text)"""
    if isinstance(e, ast.Constant) and isinstance(e.value, int) and not isinstance(e.value, bool):
        return {'1': e.value} if e.value else {}
    t = norm(e)
    if t in env:
        return dict(env[t])
    if isinstance(e, ast.BinOp) and isinstance(e.op, (ast.Add, ast.Sub)):
        a, b = _lin2(e.left, env), _lin2(e.right, env)
        sg = 1 if isinstance(e.op, ast.Add) else -1
        out = dict(a)
        for k, v in b.items():
            out[k] = out.get(k, 0) + sg * v
        return {k: v for k, v in out.items() if v}
    if isinstance(e, ast.Call) and norm(e.func) == 'int' and len(e.args) == 1:
        return _lin2(e.args[0], env)
    if isinstance(e, ast.UnaryOp) and isinstance(e.op, ast.USub):
        return {k: -v for k, v in _lin2(e.operand, env).items()}
    # substitute known names inside an opaque term so that equal terms compare equal
    return {t: 1}


def r06_5(rep: Report) -> None:
    """static (non-live) addressing: the number that is advertised / written into the served segment
    and the index into the stored file differ by the file's first sequence number:
    mod_segment == 1 + segment_num - start_number on every return of the non-live branch of
    calculate_segment_number_and_time (files whose first mfhd.sequence_number is not 1)."""
    rid = 'R06.5'
    tree = rep.repo.tree(REP)
    cls = need(find_class(tree, 'Representation'), 'Representation')
    fn = need(find_func(cls, 'calculate_segment_number_and_time'), 'calculate_segment_number_and_time')
    construct = f'{REP}::Representation.calculate_segment_number_and_time'
    nt = need(find_class(tree, 'SegmentNumberAndTime'), 'SegmentNumberAndTime')
    fields = [x.target.id for x in nt.body if isinstance(x, ast.AnnAssign) and isinstance(x.target, ast.Name)]
    if len(fields) < 2:
        raise AnalysisError('SegmentNumberAndTime: fields not found')
    # every return on a path whose condition implies a static mode, with locals read as the values
    # they have on that path
    from ..core import lin_atoms
    from ..flow import Disjunctive, each_exit
    from ..pathcond import PathCond, entails as pc_entails, f_not, sym_values
    upd, resolve = sym_values(max_len=400)
    pcd = PathCond(subst={'timing': 'self._timing'}, upd=upd, decide=upd.decide)
    live = ('atom', "self._timing.mode == 'live'")
    found = 0
    seen_keys: set[str] = set()

    def on_ret(kind, st, state):
        nonlocal found
        if kind != 'return' or st is None or st.value is None:
            return
        if pc_entails(state[0], f_not(live)) is not True:
            return
        v = st.value
        if not (isinstance(v, ast.Call) and (call_name(v) or '').endswith('SegmentNumberAndTime')):
            v = resolve(state, v)
        if not (isinstance(v, ast.Call) and (call_name(v) or '').endswith('SegmentNumberAndTime')):
            return
        actual = dict(zip(fields, v.args))
        actual.update({k.arg: k.value for k in v.keywords if k.arg})
        if fields[0] not in actual or fields[1] not in actual:
            raise AnalysisError('SegmentNumberAndTime(..): number / index arguments not found')
        num = lin_atoms(resolve(state, actual[fields[0]]))
        idx = lin_atoms(resolve(state, actual[fields[1]]))
        diff = dict(num)
        for k, c_ in idx.items():
            diff[k] = diff.get(k, 0) - c_
        diff = {k: c_ for k, c_ in diff.items() if c_}
        found += 1
        sig = norm(st) + str(sorted(num.items()))
        if sig in seen_keys:
            return
        seen_keys.add(sig)
        key = f'return {short(st.value, 50)} #{len(seen_keys)}'
        if diff == {'self.start_number': 1, '': -1}:
            rep.ok(rid, construct, key, 'number - index == start_number - 1')
        else:
            shown = ' '.join(f'{"+" if c_ > 0 else "-"} {k or abs(c_)}' for k, c_ in sorted(diff.items())) or '0'
            rep.fail(rid, construct, key,
                     f'on a static path the returned number and file index differ by {shown}; they '
                     'must differ by start_number - 1 (a stored file whose first sequence number '
                     'is not 1 is addressed one or more segments off, and the served mfhd '
                     'sequence number is wrong)', st)
    Flow(Disjunctive(pcd, cap=256), on_exit=each_exit(on_ret)).run(fn, [PathCond.initial()])
    if not found:
        raise AnalysisError('calculate_segment_number_and_time: no SegmentNumberAndTime return on the static path')


def r06_6(rep: Report) -> None:
    """a static SegmentTimeline describes the stored fragments: on every path of
    generateSegmentTimeline whose condition implies a static mode, the duration stored into an S
    entry is exactly the duration of a stored fragment - the live-only correction (drift between this
    track and the timing reference) contributes 0."""
    from ..core import lin_atoms
    from ..flow import Disjunctive
    from ..pathcond import PathCond, entails as pc_entails, f_not, satisfiable, f_and, show as pc_show, sym_values
    rid = 'R06.6'
    tree = rep.repo.tree(REP)
    cls = need(find_class(tree, 'Representation'), 'Representation')
    fn = need(find_func(cls, 'generateSegmentTimeline'), 'generateSegmentTimeline')
    c = f'{REP}::Representation.generateSegmentTimeline'
    upd, resolve = sym_values(max_len=400)
    pcd = PathCond(subst={'timing': 'self._timing'}, upd=upd)
    live = ('atom', "self._timing.mode == 'live'")
    seen = [0]
    bad: list = []

    def on_stmt(st, states):
        if not (isinstance(st, ast.Assign) and len(st.targets) == 1 and isinstance(st.targets[0], ast.Attribute)
                and st.targets[0].attr == 'duration'):
            return
        for state in states:
            if pc_entails(state[0], f_not(live)) is not True:
                continue                    # a live path (or undetermined): the correction is allowed there
            seen[0] += 1
            v = resolve(state, st.value)
            form = lin_atoms(v)
            stored = [k for k in form if re.fullmatch(r'self\.segments\[[^\]]+\]\.duration', k)]
            if len(form) == 1 and len(stored) == 1 and form[stored[0]] == 1:
                continue
            bad.append((st, norm(v), pc_show(state[0])))
    Flow(Disjunctive(pcd, cap=256), on_stmt=on_stmt).run(fn, [PathCond.initial()])
    if not seen[0]:
        raise AnalysisError('generateSegmentTimeline: no S duration is stored on a static path')
    if not bad:
        rep.ok(rid, c, 'static S@d is the stored fragment duration', f'{seen[0]} static path(s) to the store')
    else:
        st, v, pc = bad[0]
        rep.fail(rid, c, 'static S@d is the stored fragment duration',
                 f'on a static path ({pc[:80]}) the S entry gets duration `{v[:100]}`, not the stored fragment\'s '
                 'duration: a static manifest then mis-describes the (unmodified) stored media', st)


def r06_7(rep: Report) -> None:
    """list entries handed to the templates are not changed after they were listed: in the
    Representation.generate* methods an object that was appended to a result list is not written to
    (`x.attr = ..`, `x.attr += ..`) until the name is bound to a new object.  Otherwise every entry of
    the list is the same object and shows the values of the last run of segments."""
    from ..flow import Disjunctive
    rid = 'R06.7'
    tree = rep.repo.tree(REP)
    cls = need(find_class(tree, 'Representation'), 'Representation')
    fns = [f for c_, f in rep.repo.expanded_functions(REP) if c_ is cls and f.name.startswith('generate')]
    if len(fns) < 3:
        raise AnalysisError('Representation.generate* methods not found')
    for fn in fns:
        c = f'{REP}::Representation.{fn.name}'
        appended_any = [0]
        bad: list = []

        def gen(st):
            return []

        class Dom(MustFacts):
            def transfer(self, st, s):
                s = set(s)
                # writes to an object that is already listed
                tgts = []
                if isinstance(st, ast.Assign):
                    tgts = st.targets
                elif isinstance(st, (ast.AugAssign, ast.AnnAssign)):
                    tgts = [st.target]
                for t in tgts:
                    if isinstance(t, ast.Attribute) and isinstance(t.value, ast.Name) and ('listed', t.value.id) in s:
                        bad.append((st, t.value.id))
                for t in tgts:
                    for x in ast.walk(t):
                        if isinstance(x, ast.Name) and isinstance(x.ctx, ast.Store):
                            s.discard(('listed', x.id))
                if isinstance(st, ast.For):
                    for x in ast.walk(st.target):
                        if isinstance(x, ast.Name):
                            s.discard(('listed', x.id))
                for n in ast.walk(st) if not isinstance(st, (ast.If, ast.While, ast.For, ast.With, ast.Try)) else []:
                    if isinstance(n, ast.Call) and isinstance(n.func, ast.Attribute) and n.func.attr == 'append' \
                            and n.args and isinstance(n.args[0], ast.Name):
                        s.add(('listed', n.args[0].id))
                        appended_any[0] += 1
                return frozenset(s)

            def join(self, a, b):           # may-analysis: listed on some path
                return frozenset(a) | frozenset(b)

            def leq(self, a, b):
                return frozenset(a) <= frozenset(b)

            def widen(self, old, new):
                return frozenset(old) | frozenset(new)
        dataclasses = {k.name for k in tree.body if isinstance(k, ast.ClassDef)
                       and any('dataclass' in norm(d) for d in k.decorator_list)}

        def may_raise(st: ast.stmt) -> bool:
            # binding a name to a freshly built dataclass instance from names / constants cannot raise
            if isinstance(st, (ast.Assign, ast.AnnAssign)) and isinstance(getattr(st, 'value', None), ast.Call) \
                    and isinstance(st.value.func, ast.Name) and st.value.func.id in dataclasses \
                    and all(isinstance(a, (ast.Name, ast.Constant)) for a in st.value.args) \
                    and all(isinstance(k.value, (ast.Name, ast.Constant)) for k in st.value.keywords):
                tg = st.targets[0] if isinstance(st, ast.Assign) else st.target
                return not isinstance(tg, ast.Name)
            return True
        Flow(Dom(gen), raises=may_raise).run(fn, frozenset())
        if not appended_any[0]:
            continue
        if not bad:
            rep.ok(rid, c, 'listed entries are not modified afterwards')
        else:
            st, var = bad[0]
            rep.fail(rid, c, 'listed entries are not modified afterwards',
                     f'`{short(st, 60)}` writes to `{var}` after it was appended to the result without binding '
                     f'`{var}` to a new object: all entries of the list are one object and render the values of '
                     'the last run (durations / repeat counts of a static manifest no longer describe the '
                     'stored fragments)', st)


def r06_8(rep: Report) -> None:
    """a static SegmentTimeline lists every stored fragment once: the listing loop of
    generateSegmentTimeline runs `while covered < END`, adding one stored fragment per iteration and
    wrapping to the first fragment after the last.  On static paths END must be this track's own
    duration (self.mediaDuration, the sum of its fragments): a larger bound (the timing reference's
    duration, when this track is shorter) wraps and lists a fragment number that is not stored, a
    smaller one drops the tail."""
    from ..flow import Disjunctive
    from ..pathcond import PathCond, entails as pc_entails, f_not, show as pc_show, sym_values
    rid = 'R06.8'
    tree = rep.repo.tree(REP)
    cls = need(find_class(tree, 'Representation'), 'Representation')
    fn = need(find_func(cls, 'generateSegmentTimeline'), 'generateSegmentTimeline')
    c = f'{REP}::Representation.generateSegmentTimeline'
    upd, resolve = sym_values(max_len=400, subst_calls=False)
    live = ('atom', "self._timing.mode == 'live'")
    seen: list = []

    def on_stmt(st, states):
        if not isinstance(st, ast.While):
            return
        t = st.test
        if isinstance(t, ast.BoolOp) and t.values:
            t = t.values[0]
        if not (isinstance(t, ast.Compare) and len(t.ops) == 1 and isinstance(t.ops[0], ast.Lt)):
            return
        if not any(isinstance(x, ast.Attribute) and x.attr == 'duration' for x in ast.walk(st)):
            return
        for state in states:
            if pc_entails(state[0], f_not(live)) is not True:
                continue
            seen.append((st, norm(resolve(state, t.comparators[0])), pc_show(state[0])))
    Flow(Disjunctive(PathCond(subst={'timing': 'self._timing'}, upd=upd), cap=256), on_stmt=on_stmt).run(
        fn, [PathCond.initial()])
    if not seen:
        raise AnalysisError('generateSegmentTimeline: the listing loop is not reached on a static path')
    bad = [x for x in seen if x[1] != 'self.mediaDuration']
    if not bad:
        rep.ok(rid, c, 'static timeline covers this track\'s own duration')
    else:
        st, bound, pc = bad[0]
        rep.fail(rid, c, 'static timeline covers this track\'s own duration',
                 f'on a static path the listing loop runs until `{bound[:80]}` has been covered, not self.mediaDuration: '
                 'for a track shorter than that bound the loop wraps and the static manifest lists a fragment '
                 'that is not stored (one more S entry than num_media_segments; its request is answered 404)', st)


def r06_9(rep: Report) -> None:
    """a request past the end of a static presentation is refused: the number a static request is
    mapped to must grow with the requested time, so that the first..last test of the handler can refuse
    it.  A lookup that *wraps* at the end of the stored media (the live loop: `if index >
    num_media_segments: index = 1`, or `% num_media_segments`) maps every time past the end back onto
    stored segments.  Rule: in the methods of Representation, a call of a wrapping lookup (directly or
    through other methods of the class) is reached only on paths that imply live mode."""
    from ..flow import Disjunctive
    from ..pathcond import PathCond, atoms_of, entails as pc_entails, f_or, show as pc_show
    rid = 'R06.9'
    from ..core import subst_locals
    tree = rep.repo.tree(REP)
    cls = need(find_class(tree, 'Representation'), 'Representation')
    methods = {m.name: m for _c, m in rep.repo.expanded_functions(REP) if _c is cls}

    def wraps_itself(fn: ast.AST) -> bool:
        """an index is compared with num_media_segments (directly or through a local that names it) and
        put back to a constant / the first number in one of the branches; or a modulo by it"""
        for n in ast.walk(fn):
            if isinstance(n, ast.BinOp) and isinstance(n.op, ast.Mod) and 'num_media_segments' in norm(subst_locals(fn, n.right)):
                return True
            if isinstance(n, ast.If) and isinstance(n.test, ast.Compare) and len(n.test.ops) == 1:
                sides = [n.test.left, n.test.comparators[0]]
                names = [x for x in sides if isinstance(x, ast.Name)]
                if not names or not any('num_media_segments' in norm(subst_locals(fn, x)) for x in sides):
                    continue
                for v in names:
                    if 'num_media_segments' in norm(subst_locals(fn, v)):
                        continue
                    # the index itself, or the index it was computed from (`following = index + 1`)
                    feeds = {v.id} | {x.id for a_ in ast.walk(fn) if isinstance(a_, (ast.Assign, ast.AnnAssign))
                                      and getattr(a_, 'value', None) is not None
                                      and norm(a_.targets[0] if isinstance(a_, ast.Assign) else a_.target) == v.id
                                      for x in ast.walk(a_.value) if isinstance(x, ast.Name)}
                    if any(isinstance(a_, ast.Assign) and len(a_.targets) == 1 and norm(a_.targets[0]) in feeds
                           and (isinstance(a_.value, ast.Constant) or norm(a_.value).endswith('start_number'))
                           for b_ in list(n.body) + list(n.orelse) for a_ in ast.walk(b_)):
                        return True
        return False
    wrapping = {name for name, m in methods.items() if wraps_itself(m)}
    if not wrapping:
        raise AnalysisError('Representation: no method with the loop-wrap idiom found (index reset at num_media_segments)')
    # lookups, not listings: a wrapping method that takes a time / number and returns a position
    lookups = {n for n in wrapping if not n.startswith('generate')}
    changed = True
    while changed:
        changed = False
        for name, m in methods.items():
            if name in lookups or name.startswith('generate'):
                continue
            calls = {c.func.attr for c in ast.walk(m) if isinstance(c, ast.Call) and isinstance(c.func, ast.Attribute)
                     and norm(c.func.value) == 'self'}
            # a method is a wrapping lookup itself when it calls one unconditionally (no mode test at all)
            if calls & lookups and "mode" not in norm(m):
                lookups.add(name)
                changed = True
    n_sites = 0
    for name, m in sorted(methods.items()):
        if name in lookups:
            continue
        sites = [c for c in ast.walk(m) if isinstance(c, ast.Call) and isinstance(c.func, ast.Attribute)
                 and norm(c.func.value) == 'self' and c.func.attr in lookups]
        if not sites:
            continue
        construct = f'{REP}::Representation.{name}'
        verdicts: list = []

        def on_stmt(st, states, _sites=sites, _v=verdicts):
            if isinstance(st, (ast.If, ast.While, ast.For, ast.With, ast.Try)):
                return
            hit = [c for c in _sites if any(x is c for x in ast.walk(st))]
            if not hit:
                return
            for x in states:
                lives = [('atom', a_) for a_ in atoms_of(x[0]) if re.search(r"\.mode == 'live'$", a_)]
                ok_ = bool(lives) and pc_entails(x[0], f_or(*lives) if len(lives) > 1 else lives[0]) is True
                _v.append((ok_, hit[0], pc_show(x[0])))
        Flow(Disjunctive(PathCond(subst={'timing': 'self._timing'}), cap=256), on_stmt=on_stmt).run(
            m, [PathCond.initial()])
        for c in sites:
            n_sites += 1
            vs = [v for v in verdicts if v[1] is c]
            key = f'self.{c.func.attr}(..) only in live mode'
            if vs and all(v[0] for v in vs):
                rep.ok(rid, construct, key, f'{len(vs)} path(s), all imply live mode')
            else:
                pc = next((v[2] for v in vs if not v[0]), 'not reached by the path engine')
                rep.fail(rid, construct, key,
                         f'`{short(c, 60)}` wraps at the end of the stored media and is reached on a path that does '
                         f'not imply live mode (path condition: {pc[:120]}): a static request for a time past the end is '
                         'mapped back onto a stored segment and served with 200 instead of being refused', c)
    if n_sites < 2:
        raise AnalysisError(f'only {n_sites} call(s) of a wrapping lookup found in Representation')


def r06_10(rep: Report) -> None:
    """R06.10  a stored fragment without a tfdt box is served with a decode time synthesised from the index: the
    sum of the durations of the stored fragments BEFORE it - `segments[1:<index>]` (segments[0] is the init
    segment, <index> is what load_fragment was given).  One more or one less and the first fragment does
    not start at the file's first decode time and the fragments no longer abut."""
    from ..core import subst_locals, ancestors
    rel = 'dashlive/server/requesthandler/media_requests.py'
    tree = rep.repo.tree(rel)
    cls = need(find_class(tree, 'MediaRequestBase'), 'MediaRequestBase')
    fn = need(find_func(cls, 'generate_media_segment'), 'generate_media_segment')
    c = f'{rel}::MediaRequestBase.generate_media_segment'
    loads = [n for n in ast.walk(fn) if isinstance(n, ast.Call) and (call_name(n) or '').endswith('load_fragment') and len(n.args) >= 2]
    boxes = [n for n in ast.walk(fn) if isinstance(n, ast.Call) and (call_name(n) or '').endswith('TrackFragmentDecodeTimeBox')]
    if not loads or not boxes:
        raise AnalysisError('generate_media_segment: load_fragment / TrackFragmentDecodeTimeBox construction not found')
    index = norm(loads[0].args[1])
    arg = next((k.value for k in boxes[0].keywords if k.arg == 'base_media_decode_time'), None)
    region: list[ast.AST] = [arg] if arg is not None else []
    known: set[str] = set()
    for _ in range(4):
        names = {x.id for r_ in region for x in ast.walk(r_) if isinstance(x, ast.Name)} - known
        if not names:
            break
        known |= names
        for a in ast.walk(fn):
            if isinstance(a, (ast.Assign, ast.AnnAssign, ast.AugAssign)) and getattr(a, 'value', None) is not None:
                tg = a.targets[0] if isinstance(a, ast.Assign) else a.target
                if isinstance(tg, ast.Name) and tg.id in names:
                    region.append(a.value)
                    # an accumulation inside a loop: what the loop runs over belongs to the value
                    for anc in ancestors(a):
                        if isinstance(anc, ast.For):
                            region.append(anc.iter)
                        if anc is fn:
                            break
    slices = [x for r_ in region for x in ast.walk(r_) if isinstance(x, ast.Subscript) and isinstance(x.slice, ast.Slice)
              and norm(x.value).endswith('.segments')]
    if not slices:
        rep.fail('R06.10', c, 'synthesised tfdt = durations of segments[1:index]',
                 'the decode time given to a synthesised tfdt box is not a sum over a slice of the stored segments: unrecognised', boxes[0])
        return
    sl = slices[0].slice
    # plain copies of a name (a parameter of an inlined helper): mod_segment__helper = mod_segment
    copies = {a.targets[0].id: a.value.id for a in ast.walk(fn) if isinstance(a, ast.Assign) and len(a.targets) == 1
              and isinstance(a.targets[0], ast.Name) and isinstance(a.value, ast.Name)}

    # ... and names unpacked from a tuple / record built from names: a, b = rec with rec = Rec(x, y)
    for a in ast.walk(fn):
        if isinstance(a, ast.Assign) and len(a.targets) == 1 and isinstance(a.targets[0], ast.Tuple) \
                and all(isinstance(e_, ast.Name) for e_ in a.targets[0].elts):
            src_ = a.value
            if isinstance(src_, ast.Name):
                ds_ = [b.value for b in ast.walk(fn) if isinstance(b, (ast.Assign, ast.AnnAssign)) and getattr(b, 'value', None) is not None
                       and norm(b.targets[0] if isinstance(b, ast.Assign) else b.target) == src_.id]
                src_ = ds_[0] if len(ds_) == 1 else None
            elts_ = src_.elts if isinstance(src_, ast.Tuple) else (
                src_.args if isinstance(src_, ast.Call) and not src_.keywords and (call_name(src_) or '')[:1].isupper() else None)
            if elts_ is not None and len(elts_) == len(a.targets[0].elts):
                for t_, v_ in zip(a.targets[0].elts, elts_):
                    if isinstance(v_, ast.Name):
                        copies[t_.id] = v_.id

    def canon_name(t: str) -> str:
        seen_ = set()
        while t in copies and t not in seen_:
            seen_.add(t)
            t = copies[t]
        return t
    lo = norm(subst_locals(fn, sl.lower)) if sl.lower is not None else '0'
    hi = canon_name(norm(subst_locals(fn, sl.upper))) if sl.upper is not None else '<end>'
    index = canon_name(index)
    if lo == '1' and hi == index:
        rep.ok('R06.10', c, 'synthesised tfdt = durations of segments[1:index]', f'segments[1:{index}]')
    else:
        rep.fail('R06.10', c, 'synthesised tfdt = durations of segments[1:index]',
                 f'the synthesised decode time sums `{norm(slices[0])}`; the fragments before fragment `{index}` are '
                 f'segments[1:{index}] (segments[0] is the init segment): the decode time is off by one fragment, the first '
                 'fragment does not start at the first decode time of the file and consecutive fragments do not abut', slices[0])


def r06_11(rep: Report) -> None:
    """R06.11  SegmentTimeline run-length encoding: an `S` entry is extended (its repeat count raised) only when
    the duration about to be listed equals the duration of the run - the value compared with `<run>.duration`
    is the value assigned to `<run>.duration` in the same iteration.  Comparing something else (the stored
    duration, before the live drift correction) folds the corrected last fragment into the run and then
    rewrites the whole run's duration."""
    from .c04 import subst_locals_in
    tree = rep.repo.tree(REP)
    cls = need(find_class(tree, 'Representation'), 'Representation')
    fn = need(find_func(cls, 'generateSegmentTimeline'), 'generateSegmentTimeline')
    c = f'{REP}::Representation.generateSegmentTimeline'
    n = 0
    for loop in [x for x in ast.walk(fn) if isinstance(x, (ast.While, ast.For))]:
        stores = [a for a in ast.walk(loop) if isinstance(a, ast.Assign) and len(a.targets) == 1
                  and isinstance(a.targets[0], ast.Attribute) and a.targets[0].attr == 'duration'
                  and isinstance(a.targets[0].value, ast.Name)]
        for st in stores:
            node = st.targets[0].value.id
            cmps = [x for x in ast.walk(loop) if isinstance(x, ast.Compare) and len(x.ops) == 1
                    and isinstance(x.ops[0], (ast.Eq, ast.NotEq))
                    and any(norm(y) == f'{node}.duration' for y in (x.left, x.comparators[0]))]
            for cp in cmps:
                other = cp.comparators[0] if norm(cp.left) == f'{node}.duration' else cp.left
                if isinstance(other, ast.Constant):
                    continue                # `is None`-like tests written with ==
                n += 1
                a_, b_ = norm(subst_locals_in(loop, other)), norm(subst_locals_in(loop, st.value))
                a0, b0 = norm(other), norm(st.value)
                # a local that is corrected after it was copied (`duration = seg.duration` ... `duration += drift`)
                # is not its first definition
                writes: dict[str, int] = {}
                for w in ast.walk(loop):
                    tg_ = w.targets if isinstance(w, ast.Assign) else ([w.target] if isinstance(w, (ast.AugAssign, ast.AnnAssign)) else [])
                    for t_ in tg_:
                        if isinstance(t_, ast.Name):
                            writes[t_.id] = writes.get(t_.id, 0) + 1
                stable = not any(isinstance(x, ast.Name) and writes.get(x.id, 0) > 1
                                 for e_ in (other, st.value) for x in ast.walk(e_))
                if a0 == b0 or (stable and a_ == b_):
                    rep.ok('R06.11', c, f'run extended on the listed duration ({node})', f'`{a0}` compared, `{b0}` stored')
                else:
                    rep.fail('R06.11', c, f'run extended on the listed duration ({node})',
                             f'`{norm(cp)}` decides whether the run continues, but `{norm(st)}` is what the run then '
                             f'lists: `{a0}` and `{b0}` differ for the last fragment of a pass (live drift correction), so '
                             'that fragment is folded into the run and the duration of every segment of the run changes '
                             'with the window', cp)
    if n == 0:
        raise AnalysisError('generateSegmentTimeline: no comparison of a run duration found')


def analyse(rep: Report) -> None:
    rep.explanation = (
        'Conventions that the static manifests and the media endpoint must share: the inclusive '
        'byte-range form (linear normal forms on both sides), the single source of the declared '
        'duration (def-use chain from the timing reference to the template attribute), and the '
        'range refusal dominating every normal return of the VOD/live number lookup. Counts, '
        'gaplessness and tiling of ranges are arithmetic on stored data and not decided.')
    rep.rule('R06.1', 'inclusive byte-range convention agrees between writer and readers', floor=5)
    rep.rule('R06.2', 'declared static duration comes from the timing reference only', floor=11)
    rep.rule('R06.3', 'numbers outside first..last are refused on every path', floor=3)
    rep.rule('R06.5', 'static addressing: number and file index differ by start_number - 1', floor=2)
    rep.rule('R06.6', 'a static SegmentTimeline lists the stored fragment durations (no live correction)', floor=1)
    rep.rule('R06.7', 'entries of the generated segment lists are distinct objects, not modified once listed', floor=2)
    rep.rule('R06.8', 'a static SegmentTimeline covers exactly the track\'s own duration', floor=1)
    rep.rule('R06.4', 'indexer clock: start = previous end or tfdt, end = start + sample durations', floor=6)
    rep.rule('R06.9', 'static requests are not mapped through a lookup that wraps at the end of the media', floor=2)
    rep.rule('R06.10', 'a synthesised tfdt is the sum of the durations of the fragments before the requested one', floor=1)
    rep.rule('R06.11', 'an S run is extended only when the listed duration equals the duration of the run', floor=1)
    rep.rule('R06.12', 'the stored media duration is the sum of the durations of the media fragments', floor=2)
    rep.rule('R06.13', 'the sample durations and sizes the indexer sums are the ones in the file (C04 R04.12)', floor=1)
    r06_1(rep)
    r06_2(rep)
    r06_3(rep)
    r06_4(rep)
    r06_5(rep)
    r06_6(rep)
    r06_7(rep)
    r06_8(rep)
    r06_9(rep)
    r06_10(rep)
    r06_11(rep)
    r06_12(rep)
    # the indexer sums the sample durations the trun parser hands it: those are the values in the file (C04's rule)
    from ..core import lift
    from . import c04 as _c04

    def _run(sub):
        sub.rule('R04.12', 'a value a parser read from the file is not replaced by a default', floor=0)
        _c04.r04_12(sub)
    lift(rep, 'R06.13', 'C04', _run, ('R04.12',), 'dashlive/mpeg/mp4.py::TrackSample.parse',
         'per-sample durations and sizes of a trun are the ones in the file')

"""C03 - rewritten media segments keep payload and offsets (structural protocol).

R03.1  layout agreement (E4) for the boxes the segment handler re-encodes.
R03.2  offset-bearing fields (trun.data_offset, saio.offsets, tfhd.base_data_offset)
       are recomputed from *final* positions after encode and rewritten in place,
       the stream position being restored.
R03.3  the `saio` bug flag is the only way to skip the saio rewrite.
R03.4  between atom.encode(dest) and dest.getvalue() the only writer to dest is
       the video-corruption hook, under its option guard; nothing on the handler
       path assigns to mdat/UnknownBox data.
R03.5  every edit that moves the moof (emsg insertion, tfdt insertion, PIFF
       insertion) reaches the reset of tfhd.base_data_offset / the forcing of
       trun.data_offset / the saio reset before the tree is encoded.
R03.6  = R04.3 (edit API invalidates, two-pass encode order).
R03.7  every path to encode (edited or not) resets the base offset read from the stored file and
       forces the trun data_offset field, because the fragment is re-based and the trun fix-up
       cannot add the field without growing the encoded box.
"""
from __future__ import annotations

import ast
import re

from ..core import (AnalysisError, Report, call_name, dotted, find_class, find_func, need,
                    norm, short)
from ..flow import Disjunctive, Domain, Flow, MustFacts, each
from ..index import Index
from .c04 import layout_rule, r04_3

MP4 = 'dashlive/mpeg/mp4.py'
MR = 'dashlive/server/requesthandler/media_requests.py'
SEGMENT_BOXES = {
    'TrackFragmentHeaderBox', 'TrackFragmentDecodeTimeBox', 'TrackFragmentRunBox', 'TrackSample',
    'SampleAuxiliaryInformationSizesBox', 'SampleAuxiliaryInformationOffsetsBox',
    'CencSampleEncryptionBox', 'CencSampleAuxiliaryData', 'CencSubSample',
    'PiffSampleEncryptionBox', 'MovieFragmentHeaderBox', 'EventMessageBox', 'SegmentIndexBox',
    'SegmentReference', 'SegmentTypeBox', 'FileTypeBox',
}


def _deps(fn: ast.FunctionDef, expr: ast.AST, depth: int = 0) -> set[str]:
    """dotted names an expression depends on, through local assignments"""
    out: set[str] = set()
    for n in ast.walk(expr):
        d = dotted(n) if isinstance(n, (ast.Attribute, ast.Name)) else None
        if d:
            out.add(d)
    if depth < 4:
        for n in list(out):
            if '.' in n:
                continue
            for a in ast.walk(fn):
                if isinstance(a, (ast.Assign, ast.AnnAssign)) and a.value is not None:
                    tg = a.targets[0] if isinstance(a, ast.Assign) else a.target
                    if isinstance(tg, ast.Name) and tg.id == n:
                        out |= _deps(fn, a.value, depth + 1)
    return out


def _fixup_discipline(rep: Report, construct: str, fn: ast.FunctionDef, field: str,
                      rewriters: tuple[str, ...], nothing_to_fix, reasons: str) -> None:
    """One offset fix-up pass, decided on every path (path conditions + flow facts):
    R03.2  a path that assigns `field` saves the stream position, seeks, calls a rewriter and
           restores the position, in that order;
    R03.3  a path that leaves without rewriting implies one of the "nothing to fix" conditions
           (`nothing_to_fix(atoms) -> formula` builds their disjunction from the atoms of the function)."""
    from ..pathcond import PathCond, atoms_of, entails as pc_entails, show as pc_show
    from ..flow import Disjunctive, Flow

    def upd(st, facts):
        facts = set(facts)
        for n in ast.walk(st):
            if isinstance(n, ast.Call):
                cn = call_name(n) or ''
                if cn == 'dest.seek':
                    arg = norm(n.args[0]) if n.args else ''
                    if 'rewritten' in facts and f'saved:{arg}' in facts:
                        facts.add('restored')
                    elif 'rewritten' not in facts:
                        facts.add('sought')
                if cn in rewriters:
                    facts.add('rewritten' if 'sought' in facts and any(f.startswith('saved:') for f in facts)
                              else 'rewritten-unsafely')
        if isinstance(st, ast.Assign) and isinstance(st.value, ast.Call) and call_name(st.value) == 'dest.tell' \
                and isinstance(st.targets[0], ast.Name):
            facts.add(f'saved:{st.targets[0].id}')
        if isinstance(st, (ast.Assign, ast.AugAssign)):
            tg = st.targets[0] if isinstance(st, ast.Assign) else st.target
            if norm(tg) == field:
                facts.add('assigned')
        return facts
    exits: list = []

    def on_exit(kind, st, states):
        if kind in ('return', 'fall'):
            exits.extend((st, x) for x in states)
    Flow(Disjunctive(PathCond(upd=upd), cap=512), on_exit=on_exit).run(fn, [PathCond.initial()])
    if not exits:
        raise AnalysisError(f'{construct}: no normal exit')
    all_atoms: set[str] = set()
    for _st, x in exits:
        all_atoms |= atoms_of(x[0])
    goal = nothing_to_fix(all_atoms)
    n_rw = n_skip = 0
    bad_rw = bad_skip = None
    for st, x in exits:
        facts = x[2]
        if 'assigned' in facts or 'rewritten' in facts or 'rewritten-unsafely' in facts:
            n_rw += 1
            if not ({'assigned', 'rewritten', 'restored'} <= facts) or 'rewritten-unsafely' in facts:
                bad_rw = (st, x)
        else:
            n_skip += 1
            if goal is None or pc_entails(x[0], goal) is not True:
                bad_skip = (st, x)
    if n_rw == 0:
        rep.fail('R03.2', construct, 'rewrite', f'no path recomputes `{field}` and rewrites it in place', fn)
    elif bad_rw is not None:
        rep.fail('R03.2', construct, 'rewrite in place',
                 f'a path changes `{field}` without the sequence save position / seek / rewrite / restore '
                 f'(facts on that path: {sorted(f for f in bad_rw[1][2] if not f.startswith("val:"))})',
                 bad_rw[0] or fn)
    else:
        rep.ok('R03.2', construct, 'rewrite in place',
               f'{n_rw} path(s): save position, seek, rewrite, restore')
    if bad_skip is not None:
        rep.fail('R03.3', construct, 'early exits of the fix-up pass',
                 f'the offset fix-up returns without rewriting on a path that implies none of the '
                 f'"nothing to fix" cases ({reasons}); path condition: {pc_show(bad_skip[1][0])[:160]} - '
                 'a stale offset is served', bad_skip[0] or fn)
    else:
        rep.ok('R03.3', construct, 'early exits of the fix-up pass', f'{n_skip} path(s): {reasons}')


def r03_2_3(rep: Report) -> None:
    from ..pathcond import f_and, f_not, f_or
    tree = rep.repo.tree(MP4)
    # --- trun ------------------------------------------------------------
    trun = need(find_class(tree, 'TrackFragmentRunBox'), 'TrackFragmentRunBox')
    from ..normalise import propagate_attr_aliases as _paa, set_parents as _sp
    pe = _sp(_paa(need(find_func(trun, 'post_encode'), 'TrackFragmentRunBox.post_encode')))
    c = f'{MP4}::TrackFragmentRunBox.post_encode'
    assigns = [n for n in ast.walk(pe) if isinstance(n, ast.Assign)
               and norm(n.targets[0]) == 'self.data_offset']
    if not assigns:
        rep.fail('R03.2', c, 'data_offset recomputed', 'post_encode no longer assigns data_offset', pe)
    # the value written is exactly (first payload byte) - (the base the served tfhd declares): a reader
    # adds trun.data_offset to tfhd.base_data_offset, so any other base moves the samples
    from ..core import lin_atoms
    from ..flow import Disjunctive
    from ..pathcond import PathCond as _PC, sym_values as _sv
    _upd, _resolve = _sv(max_len=400, subst_calls=False)
    forms: list[tuple[ast.AST, dict]] = []

    def _on(st, states):
        if isinstance(st, ast.Assign) and norm(st.targets[0]) == 'self.data_offset':
            for state in states:
                forms.append((st, lin_atoms(_resolve(state, st.value, calls=False))))
    Flow(Disjunctive(_PC(upd=_upd), cap=128), on_stmt=_on).run(pe, [_PC.initial()])
    def box_locals(fourcc: str) -> set[str]:
        """locals of the fix-up that hold the `fourcc` box: every definition is a find_* lookup of it, or a
        copy of such a local"""
        names: set[str] = set()
        for _ in range(3):
            for a_ in ast.walk(pe):
                if isinstance(a_, (ast.Assign, ast.AnnAssign)) and getattr(a_, 'value', None) is not None:
                    tg_ = a_.targets[0] if isinstance(a_, ast.Assign) else a_.target
                    v_ = a_.value
                    if isinstance(tg_, ast.Name) and (
                            (isinstance(v_, ast.Call) and (call_name(v_) or '').rsplit('.', 1)[-1].startswith('find_')
                             and any(isinstance(x_, ast.Constant) and x_.value == fourcc for x_ in v_.args))
                            or (isinstance(v_, ast.Name) and v_.id in names)):
                        names.add(tg_.id)
        return names
    role_names = {n_: 'moof' for n_ in box_locals('moof')} | {n_: 'mdat' for n_ in box_locals('mdat')}

    def by_role(key: str) -> str:
        head, dot, rest = key.partition('.')
        return role_names.get(head, head) + dot + rest
    for a, form in forms:
        form = {by_role(k): v for k, v in form.items()}
        pos = {k for k, v in form.items() if v == 1}
        neg = {k for k, v in form.items() if v == -1}
        ok_ = pos == {'moof.position', 'moof.size', 'mdat.header_size'} and len(neg) == 1 and len(form) == 4 \
            and re.fullmatch(r'.*tfhd.*\.base_data_offset', next(iter(neg))) is not None
        if ok_:
            rep.ok('R03.2', c, 'data_offset recomputed',
                   'moof.position + moof.size + mdat.header_size - tfhd.base_data_offset')
        else:
            shown = ' '.join(f'{"+" if v > 0 else "-"} {k}' for k, v in sorted(form.items()))
            rep.fail('R03.2', c, 'data_offset recomputed',
                     f'the recomputed data_offset is `{shown[:160]}`; it must be the first payload byte '
                     '(moof.position + moof.size + mdat.header_size) minus the base the served tfhd declares '
                     '(tfhd.base_data_offset): readers add the two', a)
    if assigns and not forms:
        raise AnalysisError('trun.post_encode: the data_offset assignment is not reached')

    def eq_atoms(atoms: set[str], fn: ast.FunctionDef, need_deps: set[str]) -> list[str]:
        """`x == y` atoms where one side depends (through locals) on all of need_deps"""
        out = []
        for t in atoms:
            try:
                e = ast.parse(t, mode='eval').body
            except SyntaxError:
                continue
            if isinstance(e, ast.Compare) and len(e.ops) == 1 and isinstance(e.ops[0], ast.Eq):
                for side in (e.left, e.comparators[0]):
                    if need_deps <= {by_role(d_) for d_ in _deps(fn, side)}:
                        out.append(t)
                        break
        return out

    def absent_atoms(atoms: set[str], fn: ast.FunctionDef, fourcc: str) -> list[str]:
        """`X is None` atoms where X is a box lookup (`find_atom / find_peer / find_child('<fourcc>')`)
        or a local whose every definition in `fn` is such a lookup"""
        def lookup(e) -> bool:
            return isinstance(e, ast.Call) and (call_name(e) or '').rsplit('.', 1)[-1].startswith('find_') \
                and any(isinstance(a, ast.Constant) and a.value == fourcc for a in e.args)
        out = []
        for t in atoms:
            if not t.endswith(' is None'):
                continue
            try:
                e = ast.parse(t[:-len(' is None')], mode='eval').body
            except SyntaxError:
                continue
            if lookup(e):
                out.append(t)
            elif isinstance(e, ast.Name):
                defs = [n.value for n in ast.walk(fn) if isinstance(n, ast.Assign)
                        and any(isinstance(x, ast.Name) and x.id == e.id for tg in n.targets for x in ast.walk(tg))]
                if defs and all(lookup(d) for d in defs):
                    out.append(t)
        return out

    def trun_ok(atoms: set[str]):
        absent = absent_atoms(atoms, pe, 'moof') + absent_atoms(atoms, pe, 'mdat')
        parts = [('atom', t) for t in absent]
        eqs = eq_atoms(atoms, pe, {'moof.position', 'moof.size', 'mdat.header_size'})
        parts += [('atom', t) for t in eqs]
        if not eqs:
            return None
        return f_or(*parts)
    _fixup_discipline(rep, c, pe, 'self.data_offset', ('self.output_box_fields', 'self.encode_fields'),
                      trun_ok, 'no moof / no mdat / first sample already at the start of the mdat payload')
    # --- saio ------------------------------------------------------------
    saio = need(find_class(tree, 'SampleAuxiliaryInformationOffsetsBox'), 'saio box')
    from ..normalise import propagate_attr_aliases, set_parents
    pe2 = set_parents(propagate_attr_aliases(need(find_func(saio, 'post_encode'), 'saio.post_encode')))
    c2 = f'{MP4}::SampleAuxiliaryInformationOffsetsBox.post_encode'
    ff = need(find_func(saio, 'find_first_cenc_sample'), 'find_first_cenc_sample')
    deps = _deps(ff, [n for n in ast.walk(ff) if isinstance(n, ast.Return) and n.value is not None
                      and not isinstance(n.value, ast.Constant)][-1].value)
    # the value itself, per path, as a linear form: (+ senc.position + senc.samples[0].offset) minus the base
    # the served tfhd declares, or minus the moof position when it declares none (readers add the base)
    _upd2, _resolve2 = _sv(max_len=400)
    sforms: list[tuple[ast.AST, dict]] = []

    def _on2(st, states):
        if isinstance(st, ast.Return) and st.value is not None and not isinstance(st.value, ast.Constant):
            for state in states:
                sforms.append((st, lin_atoms(_resolve2(state, st.value))))
    Flow(Disjunctive(_PC(upd=_upd2), cap=128), on_stmt=_on2).run(ff, [_PC.initial()])
    ff_roles: dict[str, str] = {}
    for fourcc_ in ('moof', 'tfhd', 'senc'):
        for a_ in ast.walk(ff):
            if isinstance(a_, ast.Assign) and isinstance(a_.targets[0], ast.Name) and isinstance(a_.value, ast.Call) \
                    and (call_name(a_.value) or '').rsplit('.', 1)[-1].startswith('find_') \
                    and any(isinstance(x_, ast.Constant) and x_.value == fourcc_ for x_ in a_.value.args):
                ff_roles[a_.targets[0].id] = fourcc_

    def saio_key(k: str) -> str:
        k = re.sub(r"[\w.]*find_\w+\('(\w+)'\)", r'\1', k)
        head, dot, rest = k.partition('.')
        return ff_roles.get(head, head) + dot + rest
    want_pos = {'senc.position', 'senc.samples[0].offset'}
    bad_form = None
    bases: set[str] = set()
    for st_, form in sforms:
        form = {saio_key(k): v for k, v in form.items()}
        pos = {k for k, v in form.items() if v == 1}
        neg = {k for k, v in form.items() if v == -1}
        if pos == want_pos and len(neg) == 1 and len(form) == 3 and next(iter(neg)) in ('tfhd.base_data_offset', 'moof.position'):
            bases |= neg
        else:
            bad_form = (st_, form)
    if sforms and bad_form is None and bases != {'tfhd.base_data_offset', 'moof.position'}:
        bad_form = (sforms[0][0], {f'(only relative to {sorted(bases)})': 1})
    if bad_form is not None:
        shown = ' '.join(f'{"+" if v > 0 else "-"} {k}' for k, v in sorted(bad_form[1].items()))
        rep.fail('R03.2', f'{MP4}::SampleAuxiliaryInformationOffsetsBox.find_first_cenc_sample',
                 'offset = senc.position + samples[0].offset - base_data_offset',
                 f'the saio offset is `{shown[:160]}`; it must be senc.position + senc.samples[0].offset minus '
                 'tfhd.base_data_offset, or minus the moof position when the tfhd declares no base: readers add the base',
                 bad_form[0])
    elif {'senc.position', 'senc.samples'} <= {d for d in deps} | {d.rsplit('[', 1)[0] for d in deps} \
            and any('base_data_offset' in d for d in deps):
        rep.ok('R03.2', f'{MP4}::SampleAuxiliaryInformationOffsetsBox.find_first_cenc_sample',
               'offset = senc.position + samples[0].offset - base_data_offset')
    else:
        rep.fail('R03.2', f'{MP4}::SampleAuxiliaryInformationOffsetsBox.find_first_cenc_sample',
                 'offset = senc.position + samples[0].offset - base_data_offset',
                 f'the saio offset depends on {sorted(deps)}', ff)
    assigns = [n for n in ast.walk(pe2) if isinstance(n, ast.Assign)
               and norm(n.targets[0]) == 'self.offsets']
    good = bool(assigns)
    for a_ in assigns:
        d2 = _deps(pe2, a_.value)
        via_call = any('find_first_cenc_sample' in d for d in d2) or any(
            isinstance(x, ast.Call) and 'find_first_cenc_sample' in (call_name(x) or '')
            for n_ in ast.walk(pe2) if isinstance(n_, ast.Assign) and norm(n_.targets[0]) in d2
            for x in ast.walk(n_.value))
        direct = {'senc.position'} <= d2 and any('base_data_offset' in d for d in d2)
        if not (isinstance(a_.value, ast.List) and len(a_.value.elts) == 1 and (via_call or direct)):
            good = False
    if good:
        rep.ok('R03.2', c2, 'offsets recomputed from the final senc position')
    else:
        rep.fail('R03.2', c2, 'offsets recomputed from the final senc position',
                 'post_encode does not set offsets = [position of the first senc sample entry]', pe2)

    def saio_ok(atoms: set[str]):
        parts = [('atom', t) for t in absent_atoms(atoms, pe2, 'senc')]
        bug = [t for t in atoms if "has_bug('saio')" in t]
        parts += [('atom', t) for t in bug]
        not_none = f_not(('atom', 'self.offsets is None'))
        if 'len(self.offsets) == 1' in atoms:
            parts.append(f_and(not_none, f_not(('atom', 'len(self.offsets) == 1'))))
        eqs = [t for t in atoms if t.endswith('== self.offsets[0]') or t.startswith('self.offsets[0] ==')]
        for t in eqs:
            parts.append(f_and(not_none, ('atom', t)))
        if not eqs:
            return None
        return f_or(*parts)
    _fixup_discipline(rep, c2, pe2, 'self.offsets', ('self.encode',), saio_ok,
                      "no senc / several offsets / offset already right / has_bug('saio')")
    # the saio bug option is the only deviation: it must be tested on the stale path
    if "has_bug('saio')" in norm(pe2):
        rep.ok('R03.3', c2, "skip only under has_bug('saio')")
    else:
        rep.fail('R03.3', c2, "skip only under has_bug('saio')",
                 'the `saio` bug-compatibility option is no longer consulted by the fix-up', pe2)
    # has_bug reads the bug-compatibility list
    opt = need(find_class(tree, 'Options'), 'mp4.Options')
    hb = need(find_func(opt, 'has_bug'), 'Options.has_bug')
    if 'bug_compatibility' in norm(hb):
        rep.ok('R03.3', f'{MP4}::Options.has_bug', 'reads bug_compatibility')
    else:
        rep.fail('R03.3', f'{MP4}::Options.has_bug', 'reads bug_compatibility',
                 'has_bug no longer consults the bug_compatibility option', hb)
    # --- tfhd -----------------------------------------------------------
    tfhd = need(find_class(tree, 'TrackFragmentHeaderBox'), 'tfhd')
    eb = need(find_func(tfhd, 'encode_box_fields'), 'tfhd.encode_box_fields')
    first = eb.body[0]
    if isinstance(first, ast.If) and norm(first.test) == 'self.base_data_offset is None' \
            and "self.find_atom('moof').position" in norm(first):
        rep.ok('R03.2', f'{MP4}::TrackFragmentHeaderBox.encode_box_fields',
               'base_data_offset None -> moof.position at encode time')
    else:
        rep.fail('R03.2', f'{MP4}::TrackFragmentHeaderBox.encode_box_fields',
                 'base_data_offset None -> moof.position at encode time',
                 'tfhd no longer recomputes a reset base_data_offset from the moof position', eb)


class _SegDom(Domain):
    """facts + constant propagation of the boolean flags moof_modified / traf_modified"""

    def copy(self, s): return set(s)
    def join(self, a, b): return a & b
    def leq(self, a, b): return a == b      # exact path facts: keep every distinct path

    def _set(self, s: set, name: str, v: ast.AST, before: set) -> None:
        s -= {f'{name}=T', f'{name}=F'}
        if isinstance(v, ast.Constant) and v.value is True:
            s.add(f'{name}=T')
        elif isinstance(v, ast.Constant) and v.value is False:
            s.add(f'{name}=F')
        elif isinstance(v, ast.Name):
            for k in ('T', 'F'):
                if f'{v.id}={k}' in before:
                    s.add(f'{name}={k}')
        elif isinstance(v, ast.BoolOp) and isinstance(v.op, ast.Or):
            if any(isinstance(x, ast.Name) and f'{x.id}=T' in before for x in v.values):
                s.add(f'{name}=T')
            elif all(isinstance(x, ast.Name) and f'{x.id}=F' in before for x in v.values):
                s.add(f'{name}=F')
        elif isinstance(v, ast.Call) and call_name(v) == 'self.update_traf_if_required' \
                and name in ('moof_modified', 'traf_modified'):
            s.add('piff-maybe')
        elif self._positive(v, before) is True:
            s.add(f'{name}=T')
        # a counter: starts at a constant >= 0, goes up by positive constants
        s -= {f'n0:{name}', f'n1:{name}'}
        if isinstance(v, ast.Constant) and isinstance(v.value, int) and not isinstance(v.value, bool) and v.value >= 0:
            s.add(f'n0:{name}')
            if v.value >= 1:
                s.add(f'n1:{name}')

    @staticmethod
    def _positive(test: ast.AST, facts: set):
        """`count > 0` / `count >= 1` / `count != 0` / `0 < count` for a counter known to be >= 1: True"""
        if isinstance(test, ast.Compare) and len(test.ops) == 1:
            l, r, op = test.left, test.comparators[0], test.ops[0]
            if isinstance(l, ast.Constant) and isinstance(r, ast.Name):
                l, r = r, l
                op = {ast.Lt: ast.Gt(), ast.LtE: ast.GtE(), ast.Gt: ast.Lt(), ast.GtE: ast.LtE()}.get(type(op), op)
            if isinstance(l, ast.Name) and isinstance(r, ast.Constant) and isinstance(r.value, int) \
                    and not isinstance(r.value, bool) and f'n1:{l.id}' in facts:
                if (isinstance(op, ast.Gt) and r.value <= 0) or (isinstance(op, ast.GtE) and r.value <= 1) \
                        or (isinstance(op, ast.NotEq) and r.value <= 0):
                    return True
                if (isinstance(op, ast.Eq) and r.value <= 0) or (isinstance(op, ast.Lt) and r.value <= 1) \
                        or (isinstance(op, ast.LtE) and r.value <= 0):
                    return False
        if isinstance(test, ast.Name) and f'n1:{test.id}' in facts:
            return True
        return None

    def transfer(self, st, s):
        s = set(s)
        txt = norm(st)
        before = set(s)
        tgt = val = None
        if isinstance(st, ast.Assign) and len(st.targets) == 1:
            tgt, val = st.targets[0], st.value
        elif isinstance(st, ast.AnnAssign) and st.value is not None:
            tgt, val = st.target, st.value
        if isinstance(st, ast.AugAssign) and isinstance(st.target, ast.Name):
            nm = st.target.id
            up = isinstance(st.op, ast.Add) and isinstance(st.value, ast.Constant) and isinstance(st.value.value, int) \
                and not isinstance(st.value.value, bool) and st.value.value >= 1 and f'n0:{nm}' in before
            s -= {f'{nm}=T', f'{nm}=F', f'n1:{nm}'}
            if up:
                s.add(f'n1:{nm}')
            else:
                s.discard(f'n0:{nm}')
        if isinstance(st, ast.For):
            for x in ast.walk(st.target):
                if isinstance(x, ast.Name):
                    s -= {f'n0:{x.id}', f'n1:{x.id}', f'{x.id}=T', f'{x.id}=F'}
        if isinstance(tgt, ast.Name):
            self._set(s, tgt.id, val, before)
        elif isinstance(tgt, ast.Tuple) and isinstance(val, ast.Tuple) and len(tgt.elts) == len(val.elts):
            for t_, v_ in zip(tgt.elts, val.elts):
                if isinstance(t_, ast.Name):
                    self._set(s, t_.id, v_, before)
        for c in ast.walk(st):
            if isinstance(c, ast.Call):
                cn = call_name(c) or ''
                if cn.endswith('.insert_child') and 'traf' in cn:
                    s.add('traf-edited')
                if cn == 'atom.children.insert' or (cn.endswith('.insert') and 'children' in cn):
                    s.add('moof-moved')
                if cn == 'atom.encode':
                    s.add('encoded')
        # atom.children[i:i] = boxes: the same insertion written as a slice assignment
        if isinstance(st, ast.Assign) and any(isinstance(t_, ast.Subscript) and isinstance(t_.slice, ast.Slice)
                                              and norm(t_.value).endswith('children') for t_ in st.targets):
            s.add('moof-moved')
        # removing a top-level box moves the moof whenever that box is stored in front of it (a sidx
        # usually is: `styp sidx moof mdat`) - where it is stored is not known to the handler
        if isinstance(st, ast.Delete) and any(isinstance(t, ast.Attribute) and norm(t.value) == 'atom'
                                              and t.attr not in ('moof', 'mdat') for t in st.targets):
            s.add('moof-moved')
            s.add('top-level-delete')
        if 'tfhd.base_data_offset = None' in txt:
            s.add('base-reset')
        if 'data_offset_present' in txt and 'flags |=' in txt:
            s.add('trun-forced')
        if 'saio.offsets = None' in txt:
            s.add('saio-reset')
        return s

    def assume(self, test, s, truth):
        t = norm(test)
        if isinstance(test, ast.UnaryOp) and isinstance(test.op, ast.Not):
            return self.assume(test.operand, s, not truth)
        if isinstance(test, ast.Name):
            name = test.id
            if truth and f'{name}=F' in s:
                return None
            if not truth and f'{name}=T' in s:
                return None
        known = self._positive(test, set(s))
        if known is not None and known != truth:
            return None
        if t == 'tfhd is not None' and not truth:
            s = set(s) | {'base-reset'}
        if t == 'saio is not None and senc is not None' and not truth:
            s = set(s) | {'saio-reset'}
        return s


def r03_4_5(rep: Report) -> None:
    tree = rep.repo.tree(MR)
    cls = need(find_class(tree, 'MediaRequestBase'), 'MediaRequestBase')
    fn = need(find_func(cls, 'generate_media_segment'), 'generate_media_segment')
    c = f'{MR}::MediaRequestBase.generate_media_segment'
    enc_calls = [n for n in ast.walk(fn) if isinstance(n, ast.Call) and call_name(n) == 'atom.encode']
    if len(enc_calls) != 1:
        raise AnalysisError('generate_media_segment: expected exactly one atom.encode(dest)')
    enc_line = enc_calls[0].lineno
    getv = [n for n in ast.walk(fn) if isinstance(n, ast.Call) and call_name(n) == 'dest.getvalue']
    if len(getv) != 1:
        raise AnalysisError('generate_media_segment: expected exactly one dest.getvalue()')
    gv_line = getv[0].lineno
    # R03.4
    writers = []
    for n in ast.walk(fn):
        if isinstance(n, ast.Call) and enc_line < n.lineno < gv_line:
            if any(norm(a) == 'dest' for a in n.args) or (call_name(n) or '').startswith('dest.'):
                writers.append(n)
    for w in writers:
        key = short(w, 60)
        if call_name(w) == 'self.apply_video_corruption':
            par = getattr(w, '_parent', None)
            while par is not None and not isinstance(par, ast.If):
                par = getattr(par, '_parent', None)
            if par is not None and "content_type == 'video'" in norm(par.test) \
                    and 'options.videoCorruption' in norm(par.test):
                rep.ok('R03.4', c, key, 'only under the video-corruption option')
            else:
                rep.fail('R03.4', c, key, 'payload corruption hook is not guarded by its option', w)
        else:
            rep.fail('R03.4', c, key,
                     'the encoded segment is written to again between encode() and getvalue(): '
                     'payload or offsets can change after the fix-ups ran', w)
    if not writers:
        rep.ok('R03.4', c, 'no writers after encode')
    # nothing assigns box payload data on the handler path
    for n in ast.walk(fn):
        if isinstance(n, (ast.Assign, ast.AugAssign)):
            for t in (n.targets if isinstance(n, ast.Assign) else [n.target]):
                tn = norm(t)
                if tn.endswith('.data') or '.mdat' in tn or tn.endswith('._encoded'):
                    rep.fail('R03.4', c, f'assigns {tn}',
                             f'`{short(n, 60)}` changes stored payload bytes', n)
    rep.ok('R03.4', c, 'payload untouched', 'no assignment to mdat / .data / ._encoded')
    # R03.5 path rule
    results = []

    def on_stmt(st, s):
        if isinstance(st, (ast.If, ast.While, ast.For, ast.With, ast.Try)):
            return
        for call in ast.walk(st):
            if isinstance(call, ast.Call) and call_name(call) == 'atom.encode':
                results.append(set(s))
    Flow(Disjunctive(_SegDom(), cap=256), on_stmt=each(on_stmt)).run(fn, [set()])
    if not results:
        raise AnalysisError('generate_media_segment: atom.encode not reached by the path engine')
    moved = [s for s in results if 'moof-moved' in s or 'traf-edited' in s]
    if not moved:
        raise AnalysisError('generate_media_segment: no path with an emsg/tfdt insertion found')
    if all('base-reset' in s for s in moved):
        rep.ok('R03.5', c, 'moof edit -> tfhd.base_data_offset reset',
               f'{len(moved)} path(s) with an insertion all reach the reset before encode')
    else:
        culprit = next(s_ for s_ in moved if 'base-reset' not in s_)
        what = 'deletes a top-level box (a sidx stored in front of the moof moves it)' \
            if 'top-level-delete' in culprit and 'traf-edited' not in culprit else \
            'inserts an emsg/tfdt box (the moof moves or grows)'
        rep.fail('R03.5', c, 'moof edit -> tfhd.base_data_offset reset',
                 f'a path {what} and reaches atom.encode() without resetting tfhd.base_data_offset: '
                 'trun/saio offsets are computed against the stored moof position', fn)
    tr = [s for s in results if 'traf-edited' in s]
    if tr and all('trun-forced' in s for s in tr):
        rep.ok('R03.5', c, 'traf edit -> trun data_offset forced')
    else:
        rep.fail('R03.5', c, 'traf edit -> trun data_offset forced',
                 'a child is inserted into traf without forcing the trun data_offset field', fn)
    # emsg boxes end up in front of the moof box: the insertion index is the index of the moof box
    # plus at most the number of boxes inserted so far (one counter: the enumerate index of the current
    # generator's boxes, or a local that is incremented once per insertion) - not the sum of two
    from ..core import subst_locals
    from .c20 import lin
    ins = [n for n in ast.walk(fn) if isinstance(n, ast.Call) and (call_name(n) or '').endswith('children.insert')
           and len(n.args) == 2]
    # the same insertion as a slice assignment: children[M:M] = boxes, with M advanced by len(boxes) only
    slice_ins = [n for n in ast.walk(fn) if isinstance(n, ast.Assign) and len(n.targets) == 1
                 and isinstance(n.targets[0], ast.Subscript) and isinstance(n.targets[0].slice, ast.Slice)
                 and norm(n.targets[0].value).endswith('children')]
    for si in slice_ins:
        sl = si.targets[0].slice
        key = f'emsg index `{norm(sl.lower) if sl.lower is not None else ""}:`'
        moof_names = {norm(a_.targets[0]) for a_ in ast.walk(fn) if isinstance(a_, ast.Assign) and len(a_.targets) == 1
                      and isinstance(a_.targets[0], ast.Name) and "index('moof')" in norm(a_.value)}
        good = sl.lower is not None and sl.upper is not None and sl.step is None and norm(sl.lower) == norm(sl.upper) \
            and norm(sl.lower) in moof_names
        if good:
            m_ = norm(sl.lower)
            for a_ in ast.walk(fn):
                if isinstance(a_, ast.AugAssign) and norm(a_.target) == m_:
                    if not (isinstance(a_.op, ast.Add) and norm(a_.value) == f'len({norm(si.value)})'):
                        good = False
        if good:
            rep.ok('R03.5', c, 'emsg inserted immediately before moof', f'children[{norm(sl.lower)}:{norm(sl.upper)}] = ..')
        else:
            rep.fail('R03.5', c, 'emsg inserted immediately before moof',
                     f'`{short(si, 60)}` does not insert at the index of the moof box (advanced only by the number of '
                     'boxes inserted before)', si)
    if not ins and not slice_ins:
        raise AnalysisError('generate_media_segment: no emsg insertion found')
    for call in ins:
        idx_e = subst_locals(fn, call.args[0], allow_calls=True)
        l = lin(call.args[0])
        # for idx, box in enumerate(boxes, start=S): idx is S + (a counter of the boxes so far)
        enum_counters: set[str] = set()
        for f_ in ast.walk(fn):
            if l is not None and isinstance(f_, ast.For) and isinstance(f_.iter, ast.Call) \
                    and norm(f_.iter.func) == 'enumerate' and isinstance(f_.target, ast.Tuple) \
                    and any(x is call for x in ast.walk(f_)):
                k = norm(f_.target.elts[0])
                start = f_.iter.args[1] if len(f_.iter.args) == 2 else next(
                    (kw.value for kw in f_.iter.keywords if kw.arg == 'start'), None)
                if start is not None and k in l:
                    ls = lin(start)
                    if ls is None:
                        l = None
                        break
                    coef = l.pop(k)
                    for kk, vv in ls.items():
                        l[kk] = l.get(kk, 0) + coef * vv
                    l[f'{k} (counted from {norm(start)})'] = coef
                    enum_counters.add(f'{k} (counted from {norm(start)})')
        moof_defs = {norm(a_.targets[0]): norm(a_.value) for a_ in ast.walk(fn)
                     if isinstance(a_, ast.Assign) and len(a_.targets) == 1 and isinstance(a_.targets[0], ast.Name)
                     and "index('moof')" in norm(a_.value)}
        key = f'emsg index `{norm(call.args[0])[:40]}`'
        if l is None or not any(k in moof_defs for k in l):
            rep.fail('R03.5', c, 'emsg inserted immediately before moof',
                     f'emsg boxes are inserted at `{norm(call.args[0])}`, which is not derived from the index of the '
                     'moof box', call)
            continue
        rest = {k: v for k, v in l.items() if k not in moof_defs and k != ''}
        const = l.get('', 0)
        counters = []
        for k in rest:
            is_enum = any(isinstance(f_, ast.For) and isinstance(f_.iter, ast.Call) and norm(f_.iter.func) == 'enumerate'
                          and isinstance(f_.target, ast.Tuple) and norm(f_.target.elts[0]) == k
                          and any(x is call for x in ast.walk(f_)) for f_ in ast.walk(fn))
            is_count = any(isinstance(a_, ast.AugAssign) and norm(a_.target) == k and isinstance(a_.op, ast.Add)
                           and norm(a_.value) == '1' for a_ in ast.walk(fn))
            counters.append((k, is_enum or is_count or k in enum_counters))
        ok_form = const == 0 and all(v == 1 for v in rest.values()) and len(rest) <= 1 \
            and all(okc for _k, okc in counters)
        if ok_form:
            rep.ok('R03.5', c, 'emsg inserted immediately before moof', norm(call.args[0]))
        else:
            rep.fail('R03.5', c, 'emsg inserted immediately before moof',
                     f'emsg boxes are inserted at `{norm(call.args[0])}`: beyond the moof index the offset must be at '
                     'most the number of boxes inserted so far (one counter); here boxes can land between moof '
                     'and mdat, where trun.data_offset no longer addresses the first payload byte', call)
    # PIFF insertion in playready.update_traf_if_required
    pr = rep.repo.tree('dashlive/drm/playready.py')
    pcls = need(find_class(pr, 'PlayReady'), 'PlayReady')
    ut = need(find_func(pcls, 'update_traf_if_required'), 'update_traf_if_required')
    c3 = 'dashlive/drm/playready.py::PlayReady.update_traf_if_required'
    from ..core import subst_locals
    ins = [n for n in ast.walk(ut) if isinstance(n, ast.Call) and call_name(n) == 'traf.insert_child']
    if ins and all(len(n.args) == 2 and norm(subst_locals(ut, n.args[0], allow_calls=True)) == "traf.index('saiz')" for n in ins):
        rep.ok('R03.5', c3, 'PIFF box inserted before saiz')
    else:
        rep.fail('R03.5', c3, 'PIFF box inserted before saiz', 'PIFF insertion idiom changed', ut)

    def gen_piff(st):
        out = []
        for n in ast.walk(st):
            if isinstance(n, ast.Call):
                if call_name(n) == 'traf.insert_child':
                    out.append('inserted')
                if call_name(n) == 'traf.trun._invalidate':
                    out.append('invalidated')
        return out
    piff_exits: list = []

    def on_exit_piff(kind, st, states):
        if kind in ('return', 'fall'):
            piff_exits.extend((st, x) for x in states)
    from ..flow import Disjunctive as _Dj
    Flow(_Dj(MustFacts(gen_piff), cap=256), on_exit=on_exit_piff).run(ut, [frozenset()])
    good = bool(piff_exits) and any('inserted' in x for _s, x in piff_exits)
    for st_, x in piff_exits:
        ret_true = st_ is not None and isinstance(st_, ast.Return) and isinstance(st_.value, ast.Constant) \
            and st_.value.value is True
        if 'inserted' in x and not (ret_true and 'invalidated' in x):
            good = False
        if 'inserted' not in x and ret_true:
            good = False
    if good:
        rep.ok('R03.5', c3, 'reports the modification and invalidates trun')
    else:
        rep.fail('R03.5', c3, 'reports the modification and invalidates trun',
                 'after inserting the PIFF box the function must invalidate trun and return True '
                 '(the handler resets tfhd/saio only when told the traf changed)', ut)
    lf = need(find_func(cls, 'load_fragment'), 'load_fragment')
    r03_7(rep, c, fn, lf, results)
    # fragments are opened read-write (the edit API refuses read-only trees)
    from .c10 import load_fragment_facts
    if load_fragment_facts(lf)['modes'] == {'rw'}:
        rep.ok('R03.5', f'{MR}::MediaRequestBase.load_fragment', "mp4.Options(mode='rw')")
    else:
        rep.fail('R03.5', f'{MR}::MediaRequestBase.load_fragment', "mp4.Options(mode='rw')",
                 'fragments are not loaded read-write: every edit raises PermissionError', lf)


def growing_fixups(tree: ast.Module) -> list[tuple[str, str, ast.AST]]:
    """(class, flag constant, statement) for every post_encode fix-up that switches an optional field on
    (`self.flags |= self.K` where the class writes a field under `self.flags & self.K`) and then
    re-encodes the box in place: the box was encoded without the field, so the rewrite is longer than
    the box and runs over the bytes that follow it"""
    out = []
    for cls in [n for n in tree.body if isinstance(n, ast.ClassDef)]:
        pe = find_func(cls, 'post_encode')
        if pe is None:
            continue
        guarded = set()
        for f in [n for n in cls.body if isinstance(n, ast.FunctionDef) and n.name != 'post_encode'
                  and not any(norm(d) == 'classmethod' for d in n.decorator_list)]:
            for n in ast.walk(f):
                if isinstance(n, ast.If):
                    for b in ast.walk(n.test):
                        if isinstance(b, ast.BinOp) and isinstance(b.op, ast.BitAnd) and norm(b.left) == 'self.flags' \
                                and isinstance(b.right, ast.Attribute) \
                                and any(isinstance(c, ast.Call) and (call_name(c) or '').endswith('.write')
                                        for x in n.body for c in ast.walk(x)):
                            guarded.add(b.right.attr)

        def scan(body: list[ast.stmt]) -> None:
            enabled: list[tuple[str, ast.AST]] = []
            for st in body:
                if isinstance(st, ast.AugAssign) and isinstance(st.op, ast.BitOr) and norm(st.target) == 'self.flags' \
                        and isinstance(st.value, ast.Attribute) and st.value.attr in guarded:
                    enabled.append((st.value.attr, st))
                if enabled and any(isinstance(c, ast.Call) and call_name(c) in ('self.encode_fields', 'self.encode')
                                   for c in ast.walk(st)):
                    out.extend((cls.name, k, at) for k, at in enabled)
                    enabled = []
                for sub in ('body', 'orelse', 'finalbody'):
                    inner = getattr(st, sub, None)
                    if isinstance(inner, list) and inner and isinstance(inner[0], ast.stmt):
                        scan(inner)
        scan(pe.body)
    return out


def r03_7(rep: Report, c: str, fn: ast.FunctionDef, lf: ast.FunctionDef, results: list[set]) -> None:
    """
    R03.7  the fragment is parsed at its stored position and encoded into a fresh buffer, so on EVERY path
    to encode (not only those that edit the moof) (a) an offset that tfhd.parse read from the stream - the
    explicit base_data_offset - is stale and has to be reset, and (b) a box whose post_encode fix-up can
    only add its offset field by growing the encoded box has to carry the field before encode.
    """
    mp4 = rep.repo.tree(MP4)
    # premises, read from the code
    fresh = [n for n in ast.walk(fn) if isinstance(n, ast.Assign) and norm(n.value) == 'io.BytesIO()'
             and any(norm(t) == 'dest' for t in n.targets)]
    rebased = [n for n in ast.walk(lf) if isinstance(n, ast.Call) and (call_name(n) or '').endswith('BufferedReader')
               and any(k.arg == 'offset' and not (isinstance(k.value, ast.Constant) and k.value.value == 0)
                       for k in n.keywords)]
    tfhd = need(find_class(mp4, 'TrackFragmentHeaderBox'), 'TrackFragmentHeaderBox')
    parse = need(find_func(tfhd, 'parse'), 'TrackFragmentHeaderBox.parse')
    raw_base = [n for n in ast.walk(parse) if isinstance(n, ast.Call) and (call_name(n) or '').endswith('.read')
                and any(isinstance(a, ast.Constant) and a.value == 'base_data_offset' for a in n.args)]
    if fresh and rebased and raw_base:
        if all('base-reset' in s for s in results):
            rep.ok('R03.7', c, 're-based fragment -> tfhd.base_data_offset reset',
                   f'{len(results)} path(s) to encode, each resets the base read from the stored file')
        else:
            rep.fail('R03.7', c, 're-based fragment -> tfhd.base_data_offset reset',
                     'the fragment is parsed at its stored position (BufferedReader offset=) and encoded into a fresh '
                     'buffer, but a path reaches atom.encode() with the base_data_offset that tfhd.parse read from the '
                     'stored file: for a stored tfhd with an explicit base the trun offset is computed against a '
                     'position of the stored file', fn)
    else:
        rep.ok('R03.7', c, 're-based fragment -> tfhd.base_data_offset reset',
               'not required: the fragment keeps its stored position or the base is not read from the stream')
    grow = growing_fixups(mp4)
    for cname, k, at in grow:
        if cname != 'TrackFragmentRunBox':
            rep.fail('R03.7', f'{MP4}::{cname}.post_encode', f'in-place rewrite grows the box ({k})',
                     f'post_encode switches on `{k}` and re-encodes the box in place: the rewrite is longer than the '
                     'encoded box and overwrites what follows it; no caller obligation is known for this class', at)
            continue
        if all('trun-forced' in s for s in results):
            rep.ok('R03.7', c, f'growing fix-up of {cname} never taken ({k} forced)',
                   f'{len(results)} path(s) to encode, each sets trun.flags |= {k} first')
        else:
            rep.fail('R03.7', c, f'growing fix-up of {cname} never taken ({k} forced)',
                     f'{MP4}::{cname}.post_encode adds the `{k}` field by re-encoding the box in place, 4 bytes longer '
                     'than it was encoded: the bytes after the trun (the next box header, in the end the mdat header) '
                     'are overwritten. A path reaches atom.encode() without forcing the field first', fn)
    if not grow:
        rep.ok('R03.7', f'{MP4}::TrackFragmentRunBox.post_encode', 'no fix-up grows an encoded box')


def r03_8(rep: Report) -> None:
    """first pass of the saio box: when the stored offsets were reset (`self.offsets is None`) the box is written
    with exactly one entry - the position of the first senc sample entry, clamped to 0 while that is still
    negative - unless there is no such sample (`find_first_cenc_sample()` returned None).  post_encode() repairs
    the value afterwards but only for a box that HAS one entry, so an entry dropped here (for instance because
    a position of 0 is tested by truthiness) is served as an empty saio."""
    from ..pathcond import PathCond, entails as pc_entails, show as pc_show
    rid = 'R03.8'
    tree = rep.repo.tree(MP4)
    saio = need(find_class(tree, 'SampleAuxiliaryInformationOffsetsBox'), 'saio box')
    fn = need(find_func(saio, 'encode_box_fields'), 'saio.encode_box_fields')
    c = f'{MP4}::SampleAuxiliaryInformationOffsetsBox.encode_box_fields'
    pos_names = {norm(a.targets[0]) for a in ast.walk(fn) if isinstance(a, ast.Assign) and len(a.targets) == 1
                 and isinstance(a.targets[0], ast.Name) and isinstance(a.value, ast.Call)
                 and (call_name(a.value) or '').endswith('find_first_cenc_sample')}
    if not pos_names:
        raise AnalysisError('saio.encode_box_fields: the first-sample position is not taken from find_first_cenc_sample()')
    sites: list[tuple[ast.Assign, list]] = []

    def on_stmt(st, states):
        if isinstance(st, ast.Assign) and len(st.targets) == 1 and norm(st.targets[0]) == 'self.offsets':
            sites.append((st, list(states)))
    Flow(Disjunctive(PathCond(), cap=256), on_stmt=on_stmt).run(fn, [PathCond.initial()])
    if not sites:
        raise AnalysisError('saio.encode_box_fields: no assignment of self.offsets')
    for st, states in sites:
        v = st.value
        if isinstance(v, (ast.List, ast.Tuple)) and not v.elts:
            bad = [x for x in states if not any(pc_entails(x[0], ('atom', f'{p_} is None')) is True for p_ in pos_names)]
            if bad:
                rep.fail(rid, c, 'no entry only when there is no senc sample',
                         f'`{norm(st)}` is reached on a path that does not imply `{sorted(pos_names)[0]} is None` '
                         f'(path: {pc_show(bad[0][0])[:120]}): a first-sample position of 0 - the clamped value while '
                         'the moof has moved - is written as an empty saio, which post_encode() never repairs', st)
            else:
                rep.ok(rid, c, 'no entry only when there is no senc sample', f'{len(states)} path(s)')
        elif isinstance(v, (ast.List, ast.Tuple)) and len(v.elts) == 1 and norm(v.elts[0]) in pos_names:
            rep.ok(rid, c, 'one entry: the first sample position')
        elif isinstance(v, (ast.List, ast.Tuple)) and len(v.elts) == 1 and isinstance(v.elts[0], ast.Constant) \
                and v.elts[0].value == 0 and states and all(
                    any(pc_entails(x[0], ('atom', f'{p_} < 0')) is True for p_ in pos_names) for x in states):
            rep.ok(rid, c, 'one entry: the clamped position', 'the entry 0 only where the position is negative')
        else:
            rep.fail(rid, c, 'one entry: the first sample position',
                     f'`{norm(st)[:80]}`: the reset saio is not written with the single entry [{sorted(pos_names)[0]}]', st)


def _reads_source(n: ast.AST) -> bool:
    return any(isinstance(c, ast.Call) and isinstance(c.func, ast.Attribute) and c.func.attr in ('read', 'get', 'peek', 'parse')
               and norm(c.func.value).split('.')[0] in ('src', 'r', 'reader') or
               (isinstance(c, ast.Call) and isinstance(c.func, ast.Attribute) and c.func.attr == 'parse'
                and any(norm(a) == 'src' for a in c.args))
               for c in ast.walk(n))


def r03_10(rep: Report) -> None:
    """R03.10  premise of R03.2: `senc.samples[0].offset` - what find_first_cenc_sample adds to the position of the
    senc box - is the distance from the start of the box to the first byte of the entry.  The parser either
    *measures* it (`src.tell() - <box>['position']`, taken before the entry is read, against the senc's own
    record), or computes it; a computed offset must at least change with every optional block the box parser
    reads before the entries (the 20-byte algorithm / IV size / KID override under `flags & 1`): two paths that
    consume different numbers of bytes cannot share one offset."""
    rid = 'R03.10'
    tree = rep.repo.tree(MP4)
    aux = need(find_class(tree, 'CencSampleAuxiliaryData'), 'CencSampleAuxiliaryData')
    ap = need(find_func(aux, 'parse', raw=True) or find_func(aux, 'parse'), 'CencSampleAuxiliaryData.parse')
    construct = f'{MP4}::CencSampleAuxiliaryData.parse'
    params = [a.arg for a in ap.args.args if a.arg not in ('clz', 'cls', 'self')]
    # the value stored under "offset"
    val = at = None
    for n in ast.walk(ap):
        if isinstance(n, ast.Dict):
            for k, v in zip(n.keys, n.values):
                if isinstance(k, ast.Constant) and k.value == 'offset':
                    val, at = v, n
        elif isinstance(n, ast.Assign) and isinstance(n.targets[0], ast.Subscript) \
                and isinstance(n.targets[0].slice, ast.Constant) and n.targets[0].slice.value == 'offset':
            val, at = n.value, n
    if val is None:
        raise AnalysisError('CencSampleAuxiliaryData.parse: no "offset" entry is stored')

    def measured(e: ast.AST, src_names: set[str]) -> str | None:
        """the record whose position is subtracted when e is `<src>.tell() - <rec>['position']`"""
        if isinstance(e, ast.BinOp) and isinstance(e.op, ast.Sub) and isinstance(e.left, ast.Call) \
                and isinstance(e.left.func, ast.Attribute) and e.left.func.attr == 'tell' \
                and norm(e.left.func.value) in src_names and isinstance(e.right, ast.Subscript) \
                and isinstance(e.right.slice, ast.Constant) and e.right.slice.value == 'position':
            return norm(e.right.value)
        if isinstance(e, ast.BinOp) and isinstance(e.op, ast.Sub) and isinstance(e.left, ast.Call) \
                and isinstance(e.left.func, ast.Attribute) and e.left.func.attr == 'tell' \
                and norm(e.left.func.value) in src_names and isinstance(e.right, ast.Attribute) and e.right.attr == 'position':
            return norm(e.right.value)
        return None
    senc = need(find_class(tree, 'CencSampleEncryptionBox'), 'CencSampleEncryptionBox')
    sp = need(find_func(senc, 'parse', raw=True) or find_func(senc, 'parse'), 'CencSampleEncryptionBox.parse')
    c2 = f'{MP4}::CencSampleEncryptionBox.parse'
    calls = [c for c in ast.walk(sp) if isinstance(c, ast.Call) and norm(c.func).endswith('CencSampleAuxiliaryData.parse')]
    if not calls:
        raise AnalysisError('CencSampleEncryptionBox.parse: the entries are no longer parsed by CencSampleAuxiliaryData.parse')
    own = {norm(a.targets[0]) for a in ast.walk(sp) if isinstance(a, ast.Assign) and isinstance(a.value, ast.Call)
           and norm(a.value.func).endswith('FullBox.parse')} | {'rv'}

    def arg_for(call: ast.Call, pname: str) -> ast.AST | None:
        kw = next((k.value for k in call.keywords if k.arg == pname), None)
        if kw is not None:
            return kw
        i = params.index(pname)
        return call.args[i] if i < len(call.args) else None
    rec = measured(val, {params[0]})
    if rec is not None:
        early = [c for c in ast.walk(ap) if isinstance(c, ast.Call) and isinstance(c.func, ast.Attribute)
                 and c.func.attr in ('read', 'get') and c.lineno < at.lineno]
        if early:
            rep.fail(rid, construct, 'offset measured before the entry is read',
                     f'`{short(early[0], 50)}` consumes bytes of the entry before its position is taken', early[0])
        elif rec in params:
            bad = [c for c in calls if norm(arg_for(c, rec) or ast.Constant(None)) not in own]
            if bad:
                rep.fail(rid, c2, 'offset measured from the senc box',
                         f'`{short(bad[0], 70)}` hands `{norm(arg_for(bad[0], rec) or ast.Constant(None))}` over as the record whose '
                         'position the entry offset is measured from - not the record of the senc box being parsed', bad[0])
            else:
                rep.ok(rid, construct, 'offset measured from the senc box', norm(val))
        else:
            rep.fail(rid, construct, 'offset measured from the senc box',
                     f'the offset is measured against `{rec}`, which is not the record the senc parser hands over', at)
        return
    if not (isinstance(val, ast.Name) and val.id in params):
        raise AnalysisError(f'CencSampleAuxiliaryData.parse: "offset" is `{norm(val)}` - neither measured nor handed in (unknown idiom)')
    # handed in: measured by the caller, or computed there
    for c in calls:
        a = arg_for(c, val.id)
        if a is None:
            raise AnalysisError('CencSampleEncryptionBox.parse: the offset argument of the entry parser was not found')
        if measured(a, {'src'}) in own:
            rep.ok(rid, c2, 'offset measured from the senc box', norm(a))
            continue
        if not isinstance(a, ast.Name):
            raise AnalysisError(f'CencSampleEncryptionBox.parse: the entry offset `{norm(a)}` is neither measured nor a running local')
        var = a.id
        defs = [d for d in ast.walk(sp) if isinstance(d, (ast.Assign, ast.AugAssign, ast.AnnAssign))
                and norm(d.targets[0] if isinstance(d, ast.Assign) else d.target) == var]
        if any(isinstance(d, ast.Assign) and measured(d.value, {'src'}) in own and d.lineno <= c.lineno for d in defs) \
                and not any(isinstance(d, ast.AugAssign) for d in defs):
            rep.ok(rid, c2, 'offset measured from the senc box', f'{var} = src.tell() - position')
            continue
        # computed: every optional block read before the entries must change it
        blocks = [i for i in sp.body if isinstance(i, ast.If) and i.lineno < c.lineno
                  and _reads_source(ast.Module(body=i.body, type_ignores=[])) != _reads_source(ast.Module(body=i.orelse, type_ignores=[]))]
        missing = [i for i in blocks if not any(d.lineno >= i.lineno and d.lineno <= getattr(i, 'end_lineno', i.lineno) for d in defs)
                   and not any(any(norm(x) == norm(t) for x in ast.walk(d.value) for t in ast.walk(i.test)
                                   if isinstance(t, (ast.BinOp, ast.Compare)) and isinstance(x, (ast.BinOp, ast.Compare)))
                               for d in defs)]
        if missing:
            i = missing[0]
            rep.fail(rid, c2, f'computed offset accounts for the block under {short(i.test, 30)}',
                     f'the entry offset `{var}` is computed ({"; ".join(short(d, 40) for d in defs[:2])}), and nothing changes it for the '
                     f'block the parser reads under `{norm(i.test)}` (line {i.lineno}): for a box with that block every entry offset is '
                     'short by the size of the block - the saio offset computed from it points into the override, not at the first entry', i)
        else:
            rep.ok(rid, c2, 'computed offset changes with every optional block', f'{len(blocks)} optional block(s)')


def r03_9(rep: Report) -> None:
    """boxes that depend on another box (saio on senc / tfhd / moof through DEPENDS_UPON) are kept as raw bytes
    until the box they depend on announces `change.<type>`; the announcement is what makes their offset fix-up
    run.  Every assignment of a public field of an Mp4Atom must therefore announce the change - whether or not
    the atom still holds a cached encoding (a lazily loaded atom holds none).  Must-analysis: on every path of
    `Mp4Atom.__setattr__` that implies `<name> in self._fields` (after initialisation) `self.trigger_change()` is
    reached, directly or through a method of the class that reaches it on all of its paths."""
    from ..flow import each_exit
    from ..pathcond import PathCond, entails as pc_entails
    rid = 'R03.9'
    tree = rep.repo.tree(MP4)
    cls = need(find_class(tree, 'Mp4Atom'), 'Mp4Atom')
    methods = {m.name: m for m in cls.body if isinstance(m, ast.FunctionDef)}
    if 'trigger_change' not in methods or '__setattr__' not in methods:
        raise AnalysisError('Mp4Atom.trigger_change / __setattr__ not found')
    must: set[str] = {'trigger_change'}

    def announces(st: ast.AST) -> bool:
        return any(isinstance(c, ast.Call) and isinstance(c.func, ast.Attribute) and norm(c.func.value) == 'self'
                   and c.func.attr in must for c in ast.walk(st))

    def always(fn: ast.FunctionDef) -> bool:
        ok = [True]
        seen = [0]

        def gen(st):
            return ['tc'] if not isinstance(st, (ast.If, ast.While, ast.For, ast.Try, ast.With)) and announces(st) else []

        def on_exit(kind, st, s):
            if kind in ('return', 'fall'):
                seen[0] += 1
                if 'tc' not in s:
                    ok[0] = False
        Flow(MustFacts(gen), on_exit=on_exit).run(fn, frozenset())
        return ok[0] and seen[0] > 0
    for _ in range(4):
        grew = False
        for name, m in methods.items():
            if name not in must and name not in ('__setattr__', '__delattr__', '__init__') and always(m):
                must.add(name)
                grew = True
        if not grew:
            break
    sa = methods['__setattr__']
    params = [a.arg for a in sa.args.args]
    nm = params[1] if len(params) > 1 else 'name'
    construct = f'{MP4}::Mp4Atom.__setattr__'
    bad = []
    n_paths = [0]

    def gen2(st):
        return ['tc'] if not isinstance(st, (ast.If, ast.While, ast.For, ast.Try, ast.With)) and announces(st) else []
    from ..flow import Disjunctive

    class D(PathCond):
        pass
    facts_at_exit: list = []

    def upd(st, facts):
        return facts | {'tc'} if gen2(st) else facts

    def on_exit2(kind, st, state):
        if kind not in ('return', 'fall'):
            return
        pc = state[0]
        field_path = pc_entails(pc, ('atom', f'{nm} in self._fields')) is True
        if field_path:
            n_paths[0] += 1
            if 'tc' not in state[2]:
                bad.append((st, pc))
    Flow(Disjunctive(PathCond(upd=upd), cap=128), on_exit=each_exit(on_exit2)).run(sa, [PathCond.initial()])
    if n_paths[0] == 0:
        raise AnalysisError(f'Mp4Atom.__setattr__: no path implies `{nm} in self._fields`')
    if bad:
        from ..pathcond import show as pc_show
        rep.fail(rid, construct, 'a field assignment announces the change',
                 f'a path that assigns a public field (path: {pc_show(bad[0][1])[:100]}) does not reach self.trigger_change() '
                 f'(methods that always announce: {sorted(must)}): a lazily loaded atom has no cached encoding, so a guard on '
                 '`_encoded` silences the announcement and the boxes that depend on it (saio) keep their stale bytes', bad[0][0] or sa)
    else:
        rep.ok(rid, construct, 'a field assignment announces the change', f'{n_paths[0]} path(s); always announcing: {sorted(must)}')


def analyse(rep: Report) -> None:
    rep.explanation = (
        'Decides the structural protocol that makes offsets right after edits: reader/writer '
        'layout agreement of the boxes re-encoded in a segment; data-dependence of the recomputed '
        'trun/saio/tfhd offsets on final positions and in-place rewrite discipline; the saio bug '
        'flag as the only skip; a who-may-write rule between encode() and getvalue(); a path rule '
        '(flag constant propagation over generate_media_segment) that every box insertion reaches '
        'the resets before encode. Byte identity of mdat and the numerical offsets are not decided.')
    rep.rule('R03.1', 'layouts of the boxes rewritten in a segment agree', floor=12)
    rep.rule('R03.2', 'offset fields are recomputed from final positions and rewritten in place', floor=6)
    rep.rule('R03.3', 'saio rewrite skipped only under the saio bug option', floor=4)
    rep.rule('R03.4', 'nothing writes to the encoded segment except the guarded corruption hook', floor=2)
    rep.rule('R03.5', 'box insertions reach the offset resets before encode', floor=6)
    rep.rule('R03.7', 'a re-based fragment resets stored offsets and leaves room for the fix-ups on every path', floor=2)
    rep.rule('R03.9', 'every assignment of a public field of a box announces the change to the boxes that depend on it', floor=1)
    rep.rule('R03.10', 'the offset of a senc entry is its distance from the start of the senc box (premise of the saio form)', floor=1)
    rep.rule('R03.8', 'a reset saio is written with one entry unless there is no senc sample', floor=2)
    rep.rule('R04.3', 'edit API invalidates cached encodings; two-pass encode order (shared with C04)',
             floor=10)
    idx = Index(rep.repo, 'dashlive')
    layout_rule(rep, idx, 'R03.1', [MP4], 12, only=SEGMENT_BOXES)
    r03_2_3(rep)
    r03_4_5(rep)
    r03_8(rep)
    r03_9(rep)
    r03_10(rep)
    r04_3(rep)

"""Persistent-state effects of a function (shared by C15 and C17)."""
from __future__ import annotations

import ast

from .core import call_name, norm
from .index import CallGraph, FuncInfo, Index

MODELS_PKG = 'dashlive.server.models.'


# --------------------------------------------------------------------------
# effects
# --------------------------------------------------------------------------
class Effects:
    def __init__(self, idx: Index, cg: CallGraph) -> None:
        self.idx = idx
        self.cg = cg
        self.model_quals = {q for q, c in idx.classes.items()
                            if q.startswith(MODELS_PKG) and '__tablename__' in c.attrs}
        self._cache: dict[str, tuple[list, bool]] = {}

    def model_of(self, f: FuncInfo, e: ast.AST) -> str | None:
        q, _ = self.cg.receiver_class(f, e)
        if q in self.model_quals:
            return q.rsplit('.', 1)[-1]
        if q is not None and q.endswith('ModelMixin'):
            return '?'
        return None

    def local(self, f: FuncInfo) -> tuple[list[tuple[str, ast.AST, str]], bool]:
        """(stores [(model, node, kind)], commits?) performed directly in f"""
        if f.qual in self._cache:
            return self._cache[f.qual]
        stores: list[tuple[str, ast.AST, str]] = []
        commits = False
        in_mixin = f.cls is not None and f.cls.name == 'ModelMixin'
        for n in ast.walk(f.node):
            if isinstance(n, ast.Call):
                cn = call_name(n) or ''
                if cn.endswith('session.commit') or cn.endswith('session.flush'):
                    commits = True
                for k in n.keywords:
                    if k.arg == 'commit' and not (isinstance(k.value, ast.Constant)
                                                  and k.value.value is False):
                        commits = True
                if (cn.endswith('session.add') or cn.endswith('session.delete')) and n.args \
                        and not in_mixin:
                    m = self.model_of(f, n.args[0]) or '?'
                    stores.append((m, n, cn.rsplit('.', 1)[-1]))
                elif isinstance(n.func, ast.Attribute) and n.func.attr in ('add', 'delete') \
                        and not cn.endswith(('session.add', 'session.delete')):
                    m = self.model_of(f, n.func.value)
                    if m is not None and m != '?':
                        stores.append((m, n, n.func.attr))
                elif isinstance(n.func, ast.Attribute) and n.func.attr in (
                        'unlink', 'rmtree', 'rmdir') or cn in ('os.remove', 'shutil.rmtree'):
                    stores.append(('<blob store>', n, 'file delete'))
                elif isinstance(n.func, ast.Attribute) and n.func.attr == 'save' \
                        and 'file' in norm(n.func.value).lower():
                    stores.append(('<blob store>', n, 'file save'))
                elif isinstance(n.func, ast.Attribute) and n.func.attr == 'open' and n.args \
                        and isinstance(n.args[0], ast.Constant) and 'w' in str(n.args[0].value):
                    stores.append(('<blob store>', n, 'file write'))
            elif isinstance(n, (ast.Assign, ast.AugAssign, ast.AnnAssign)):
                targets = n.targets if isinstance(n, ast.Assign) else [n.target]
                for t in targets:
                    if isinstance(t, ast.Attribute):
                        m = self.model_of(f, t.value)
                        if m is None and isinstance(t.value, ast.Name) and t.value.id == 'self' \
                                and f.cls is not None and f.cls.qual in self.model_quals \
                                and f.name not in ('__init__',):
                            m = f.cls.name
                        if m is not None and not t.attr.startswith('_'):
                            stores.append((m, n, f'.{t.attr} ='))
        self._cache[f.qual] = (stores, commits)
        return stores, commits


